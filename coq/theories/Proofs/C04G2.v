(* C04, legacy, end to end with revocation: which non-revocation intervals apply to an entry, seen
   by the holder's bookkeeping (entry_infos), by the prover and by the verifier - the same set *)
From Coq Require Import List String Ascii ZArith NArith Bool Lia.
From AV Require Import Model.Str Model.Encode Model.Query Model.VTypes Model.Interval Model.Eval Model.CL Model.VerifierLegacy Model.VerifierW3C
  Model.VCfg Model.Prover Model.PProps Proofs.VMonad Proofs.C07Proofs Proofs.C04Proofs Proofs.IntervalProofs.
From AV Require Import Proofs.C04F1 Proofs.C04F2 Proofs.C04F3 Proofs.C04F4 Proofs.C04F5 Proofs.C04F6 Proofs.C04F7 Proofs.C04F8.
From AV Require Import Proofs.C04G1.
Import ListNotations.
Local Open Scope string_scope.
Local Open Scope list_scope.
Local Open Scope Z_scope.

Lemma assoc_in_nodup {V} k (m : list (string * V)) v : NoDup (keys m) -> In (k, v) m -> assoc k m = Some v.
Proof. exact (assoc_nodup_in k m v). Qed.

Section Rev.
  Context (R : request) (cx : ctx) (link : N) (ps : list present) (self : list (string * string)) (P : presentation).
  Notation E := (nonempty ps).
  Context (Hcreate : create_legacy pcfg_fixed R cx link ps self = ROk P).
  Context (Hcov : coverage (mk_case R cx link ps self) = true).

  Let BF := build_facts R cx link ps self P Hcreate.

  (* the attribute referents the verifier attributes to sub-proof k are those the holder mapped to entry k *)
  Lemma served_attrs_char k p : at_idx E 0 k p -> forall r, In r (served_attr_refs cfg_fixed P k) <-> exists b, In (r, b) (pr_attrs p).
  Proof.
    intros Hat r. destruct BF as [_ Br Bg Bu _ _ _ Bai _]. unfold served_attr_refs. cbn [f_unrev_intervals cfg_fixed]. rewrite !in_app_iff. split.
    - intros [H|[H|H]]; apply in_map_iff in H as ([r' v] & <- & Hf); apply filter_In in Hf as [Hin Hj]; cbn [fst].
      + destruct v as [[j raw] enc]. apply Z.eqb_eq in Hj. subst j. apply Br in Hin as (k' & p' & Hat' & (Hb & ai & n & raw' & enc' & _ & _ & _ & Hv)).
        injection Hv as -> _ _. destruct Hat as [_ H1], Hat' as [_ H2]. rewrite H1 in H2. injection H2 as <-. eauto.
      + destruct v as [j vals]. apply Z.eqb_eq in Hj. subst j. apply Bg in Hin as (k' & p' & Hat' & (Hb & ai & ns & vals' & _ & _ & _ & _ & Hv)).
        injection Hv as -> _. destruct Hat as [_ H1], Hat' as [_ H2]. rewrite H1 in H2. injection H2 as <-. eauto.
      + apply Z.eqb_eq in Hj. subst v. apply Bu in Hin as (k' & p' & Hat' & (Hb & Hk)). subst k'.
        destruct Hat as [_ H1], Hat' as [_ H2]. rewrite H1 in H2. injection H2 as <-. eauto.
    - intros [b Hb]. pose proof (at_idx_in _ _ _ Hat) as Hp. destruct b.
      + destruct (Bai p r Hp Hb) as [ai Hai]. destruct (cov_shape R cx link ps self Hcov r ai (assoc_In _ _ _ Hai)) as [(n & Hn & _)|(Hn & m & ns & Hns)].
        * destruct (revealed_found R cx link ps self P Hcreate k p r ai n Hat Hb Hai) as (sp & raw & e & _ & Hf & _); [unfold names_of; rewrite Hn; left; reflexivity|].
          left. apply in_map_iff. exists (r, (k, raw, e)). split; [reflexivity|]. apply filter_In. split; [|apply Z.eqb_refl].
          apply Br. exists k, p. split; [exact Hat|]. split; [exact Hb|]. exists ai, n, raw, e. auto.
        * right. left.
          assert (Hm : exists vals, mapR (fun n => v0 <- of_opt (find_value (pr_cred p) n) ;; ROk (n, v0)) (m :: ns) = ROk vals).
          { apply mapR_total. intros n Hn'. destruct (revealed_found R cx link ps self P Hcreate k p r ai n Hat Hb Hai) as (sp & raw & e & _ & Hf & _); [unfold names_of; rewrite Hn, Hns; exact Hn'|].
            rewrite Hf. cbn. eauto. }
          destruct Hm as [vals Hvals]. apply in_map_iff. exists (r, (k, vals)). split; [reflexivity|]. apply filter_In. split; [|apply Z.eqb_refl].
          apply Bg. exists k, p. split; [exact Hat|]. split; [exact Hb|]. exists ai, (m :: ns), vals. auto 6.
      + right. right. apply in_map_iff. exists (r, k). split; [reflexivity|]. apply filter_In. split; [|apply Z.eqb_refl].
        apply Bu. exists k, p. split; [exact Hat|]. split; [exact Hb|reflexivity].
  Qed.

  (* every selected referent is a referent of the request *)
  Lemma sel_attr_in_req p r b : In p E -> In (r, b) (pr_attrs p) -> exists ai, assoc r (rq_attrs R) = Some ai /\ In (r, ai) (rq_attrs R).
  Proof.
    intros Hp Hb. assert (Hk : In r (keys (rq_attrs R))) by (apply (cov_attrs R cx link ps self Hcov); left; apply (sel_refs_E ps); eauto).
    destruct (assoc_some_of_key r _ Hk) as [ai Hai]. exists ai. split; [exact Hai|exact (assoc_In _ _ _ Hai)].
  Qed.
  Lemma sel_pred_in_req p r : In p E -> In r (pr_preds p) -> exists pi, assoc r (rq_preds R) = Some pi /\ In (r, pi) (rq_preds R).
  Proof.
    intros Hp Hr. assert (Hk : In r (keys (rq_preds R))) by (apply (cov_preds R cx link ps self Hcov); apply (sel_preds_E ps); eauto).
    destruct (assoc_some_of_key r _ Hk) as [pi Hpi]. exists pi. split; [exact Hpi|exact (assoc_In _ _ _ Hpi)].
  Qed.

  (* the parts of the interval of an entry, as the holder's bookkeeping lists them *)
  Lemma entry_infos_char p o : In p E -> (In o (entry_infos R p) <->
    (exists r b ai, In (r, b) (pr_attrs p) /\ In (r, ai) (rq_attrs R) /\ o = ai_nr ai) \/
    (exists r pi, In r (pr_preds p) /\ In (r, pi) (rq_preds R) /\ o = pi_nr pi)).
  Proof.
    intros Hp. unfold entry_infos. rewrite in_app_iff, !in_flat_map. split.
    - intros [([r b] & Hb & Ho)|(r & Hr & Ho)].
      + destruct (sel_attr_in_req p r b Hp Hb) as (ai & Ha & Hin). rewrite Ha in Ho. destruct Ho as [<-|[]]. left. eauto 7.
      + destruct (sel_pred_in_req p r Hp Hr) as (pi & Ha & Hin). rewrite Ha in Ho. destruct Ho as [<-|[]]. right. eauto 6.
    - intros [(r & b & ai & Hb & Hin & ->)|(r & pi & Hr & Hin & ->)].
      + left. exists (r, b). split; [exact Hb|]. rewrite (assoc_in_nodup r _ ai (cov_nodup_attrs R cx link ps self Hcov) Hin). left. reflexivity.
      + right. exists r. split; [exact Hr|]. rewrite (assoc_in_nodup r _ pi (cov_nodup_preds R cx link ps self Hcov) Hin). left. reflexivity.
  Qed.
End Rev.
