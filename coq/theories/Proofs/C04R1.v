From Coq Require Import List String ZArith NArith Bool Lia.
From AV Require Import Model.Str Model.Encode Model.Query Model.VTypes Model.Interval Model.Eval Model.CL
  Model.VerifierLegacy Model.VCfg Model.VProps Model.Prover Model.PProps Proofs.VMonad Proofs.C06S4.
Import ListNotations.
Open Scope string_scope.
Open Scope list_scope.
Open Scope Z_scope.

(* the prover never looks at restrictions: what it builds for a request is what it builds for the
   same request with every restriction removed *)
Section ProverStrip.
  Context (pc : pcfg) (R : request).

  Lemma mapR_assoc_attrs l : mapR (fun r => of_opt (assoc r (rq_attrs (strip_req R)))) l
    = match mapR (fun r => of_opt (assoc r (rq_attrs R))) l with ROk ais => ROk (map strip_ai ais) | RErr => RErr | RPanic => RPanic end.
  Proof.
    unfold strip_req. cbn [rq_attrs]. induction l as [|r l IH]; [reflexivity|]. cbn [mapR]. rewrite assoc_map, IH.
    destruct (assoc r (rq_attrs R)); cbn [option_map of_opt bind]; [|reflexivity].
    destruct (mapR (fun r0 => of_opt (assoc r0 (rq_attrs R))) l); reflexivity.
  Qed.
  Lemma mapR_assoc_preds l : mapR (fun r => of_opt (assoc r (rq_preds (strip_req R)))) l
    = match mapR (fun r => of_opt (assoc r (rq_preds R))) l with ROk pis => ROk (map strip_pi pis) | RErr => RErr | RPanic => RPanic end.
  Proof.
    unfold strip_req. cbn [rq_preds]. induction l as [|r l IH]; [reflexivity|]. cbn [mapR]. rewrite assoc_map, IH.
    destruct (assoc r (rq_preds R)); cbn [option_map of_opt bind]; [|reflexivity].
    destruct (mapR (fun r0 => of_opt (assoc r0 (rq_preds R))) l); reflexivity.
  Qed.
  Lemma names_strip ais : flat_map names_of (map strip_ai ais) = flat_map names_of ais.
  Proof. induction ais as [|a l IH]; [reflexivity|]. cbn [map flat_map]. rewrite IH. reflexivity. Qed.
  Lemma fold_nr_strip ais : forall acc, fold_left (fun acc ai => merge_opt acc (ai_nr ai)) (map strip_ai ais) acc = fold_left (fun acc ai => merge_opt acc (ai_nr ai)) ais acc.
  Proof. induction ais as [|a l IH]; intros acc; [reflexivity|]. cbn [map fold_left]. rewrite IH. reflexivity. Qed.
  Lemma fold_pnr_strip pis : forall acc, fold_left (fun acc pi => merge_opt acc (pi_nr pi)) (map strip_pi pis) acc = fold_left (fun acc pi => merge_opt acc (pi_nr pi)) pis acc.
  Proof. induction pis as [|a l IH]; intros acc; [reflexivity|]. cbn [map fold_left]. rewrite IH. reflexivity. Qed.
  Lemma preds_strip pis : map (fun pi => (cv (pi_name pi), pi_type pi, pi_value pi)) (map strip_pi pis) = map (fun pi => (cv (pi_name pi), pi_type pi, pi_value pi)) pis.
  Proof. rewrite map_map. reflexivity. Qed.

  Lemma strip_sub_proof cx link pos p fed : prover_sub_proof pc (strip_req R) cx link pos p fed = prover_sub_proof pc R cx link pos p fed.
  Proof.
    unfold prover_sub_proof. apply bind_ext; [reflexivity|intros sc]. apply bind_ext; [reflexivity|intros cd0].
    rewrite mapR_assoc_attrs.
    destruct (mapR (fun r => of_opt (assoc r (rq_attrs R))) (map fst (List.filter snd (pr_attrs p)))) as [ais| |]; cbn [bind]; try reflexivity.
    destruct (pf_unrev_intervals pc).
    - rewrite mapR_assoc_attrs.
      destruct (mapR (fun r => of_opt (assoc r (rq_attrs R))) (map fst (List.filter (fun x => negb (snd x)) (pr_attrs p)))) as [uis| |]; cbn [bind]; try reflexivity.
      rewrite mapR_assoc_preds. destruct (mapR (fun r => of_opt (assoc r (rq_preds R))) (pr_preds p)) as [pis| |]; cbn [bind]; try reflexivity.
      rewrite names_strip, !fold_nr_strip, fold_pnr_strip, preds_strip. reflexivity.
    - cbn [bind]. rewrite mapR_assoc_preds. destruct (mapR (fun r => of_opt (assoc r (rq_preds R))) (pr_preds p)) as [pis| |]; cbn [bind]; try reflexivity.
      rewrite names_strip, !fold_nr_strip, fold_pnr_strip, preds_strip. reflexivity.
  Qed.

  Lemma strip_upd_attr c k rp x : upd_attr (strip_req R) c k rp x = upd_attr R c k rp x.
  Proof.
    destruct x as [r b]. unfold upd_attr, strip_req. cbn [rq_attrs]. destruct b; [|reflexivity].
    rewrite assoc_map. destruct (assoc r (rq_attrs R)); reflexivity.
  Qed.
  Lemma strip_upd_attrs c k l : forall rp, upd_attrs (strip_req R) c k l rp = upd_attrs R c k l rp.
  Proof. induction l as [|x l IH]; intros rp; [reflexivity|]. cbn [upd_attrs]. rewrite strip_upd_attr. apply bind_ext; [reflexivity|intros rp']. apply IH. Qed.
  Lemma strip_upd_rp p k rp : upd_rp (strip_req R) p k rp = upd_rp R p k rp.
  Proof. unfold upd_rp. rewrite strip_upd_attrs. reflexivity. Qed.

  Lemma strip_legacy_loop cx link ps : forall k rp, legacy_loop pc (strip_req R) cx link ps k rp = legacy_loop pc R cx link ps k rp.
  Proof.
    induction ps as [|p ps IH]; intros k rp; [reflexivity|]. cbn [legacy_loop]. destruct (pr_empty p); [apply IH|].
    rewrite strip_upd_rp. apply bind_ext; [reflexivity|intros rp']. rewrite strip_sub_proof. apply bind_ext; [reflexivity|intros sp].
    rewrite IH. reflexivity.
  Qed.

  Theorem strip_create_legacy cx link ps self : create_legacy pc (strip_req R) cx link ps self = create_legacy pc R cx link ps self.
  Proof. unfold create_legacy. rewrite strip_legacy_loop. reflexivity. Qed.
End ProverStrip.
