(* part 7 (revocation class): case-level statements, the decidable class without restrictions, and inhabitants *)
From Coq Require Import List String Ascii ZArith NArith Bool Lia.
From AV Require Import Model.Str Model.Encode Model.Query Model.VTypes Model.Interval Model.Eval Model.CL Model.VerifierLegacy Model.VerifierW3C
  Model.VCfg Model.VProps Model.Prover Model.PProps Proofs.VMonad Proofs.C04F4 Proofs.C04Proofs Proofs.VW3CC2.
From AV Require Import Proofs.C04W1 Proofs.C04W4c Proofs.C04W6.
Import ListNotations.
Local Open Scope string_scope.
Local Open Scope list_scope.
Local Open Scope Z_scope.

Theorem c04_w3c_rev_c c P : w3c_rev_r c = true ->
  (forall p subj sp r b ai, In p (nonempty (pc_sel c)) -> In (r, b) (pr_attrs p) -> assoc r (rq_attrs (pc_req c)) = Some ai -> build_subject pcfg_fixed (pc_req c) p = ROk subj ->
     restriction_true cfg_fixed (pc_cx c) (entry_of p subj sp) (ident_of p) (ai_restr ai)) ->
  (forall p subj sp r pi, In p (nonempty (pc_sel c)) -> In r (pr_preds p) -> assoc r (rq_preds (pc_req c)) = Some pi -> build_subject pcfg_fixed (pc_req c) p = ROk subj ->
     restriction_true cfg_fixed (pc_cx c) (entry_of p subj sp) (ident_of p) (pi_restr pi)) ->
  create_w3c pcfg_fixed (pc_req c) (pc_cx c) (pc_link c) (pc_sel c) = ROk P -> verify_w3c cfg_fixed (pc_req c) P (pc_cx c) = Accept.
Proof.
  destruct c as [R cx link ps self]. cbn [pc_req pc_cx pc_link pc_sel]. intros H Hra Hrp Hcreate.
  assert (Hs : self = []).
  { unfold w3c_rev_r in H. rewrite !andb_true_iff in H. destruct H as [[[_ Hs] _] _]. cbn [pc_self] in Hs. destruct self; [reflexivity|discriminate]. }
  subst self. exact (c04_w3c_rev R cx link ps P H Hra Hrp Hcreate).
Qed.
Theorem c04_w3c_rev_b c P : w3c_rev_b c = true ->
  create_w3c pcfg_fixed (pc_req c) (pc_cx c) (pc_link c) (pc_sel c) = ROk P -> verify_w3c cfg_fixed (pc_req c) P (pc_cx c) = Accept.
Proof.
  intros H Hcreate. unfold w3c_rev_b in H. rewrite !andb_true_iff in H. destruct H as [[Hr Ha] Hp]. rewrite forallb_forall in Ha, Hp.
  apply (c04_w3c_rev_c c P Hr); [| |exact Hcreate].
  - intros p subj sp r b ai _ _ Has _. specialize (Ha _ (assoc_In _ _ _ Has)). cbn in Ha. destruct (ai_restr ai); [discriminate|exact I].
  - intros p subj sp r pi _ _ Has _. specialize (Hp _ (assoc_In _ _ _ Has)). cbn in Hp. destruct (pi_restr pi); [discriminate|exact I].
Qed.

(* inhabitants. (1) without revocation: two credentials (one passed along unused as well), a revealed text attribute under
   another spelling of its name, an unrevealed attribute, a revealed and an unrevealed group, two predicates on one attribute *)
Definition w_ai n := {| ai_name := Some n; ai_names := None; ai_restr := None; ai_nr := None |}.
Definition w_grp ns := {| ai_name := None; ai_names := Some ns; ai_restr := None; ai_nr := None |}.
Definition w_pi n t v := {| pi_name := n; pi_type := t; pi_value := v; pi_restr := None; pi_nr := None |}.
Definition w_req := {| rq_nonce := 5; rq_attrs := [("a1", w_ai "N a m e"); ("a3", w_ai "ROLE"); ("a4", w_ai "name"); ("g1", w_grp ["Role"; "role"]); ("g2", w_grp ["NAME"; "age"])];
                       rq_preds := [("p1", w_pi "AGE" GE 18); ("p2", w_pi "age" LT 65)]; rq_nr := None |}.
Definition w_sel := [ {| pr_cred := z_c2; pr_ts := None; pr_state := None; pr_attrs := []; pr_preds := [] |};
                      {| pr_cred := z_c1; pr_ts := None; pr_state := None; pr_attrs := [("a1", true); ("a4", false); ("g2", false)]; pr_preds := ["p1"; "p2"] |};
                      {| pr_cred := z_c2; pr_ts := None; pr_state := None; pr_attrs := [("a3", true); ("g1", true)]; pr_preds := [] |} ].
Definition w_case := mk_case w_req z_cx 7 w_sel [].
Example c04_w3c_plain_nonvacuous :
  w3c_rev_b w_case = true /\
  exists P, create_w3c pcfg_fixed w_req z_cx 7 w_sel = ROk P /\ List.length (wp_creds P) = 2%nat /\ verify_w3c cfg_fixed w_req P z_cx = Accept.
Proof.
  split; [vm_compute; reflexivity|]. eexists. split; [vm_compute; reflexivity|]. split; [reflexivity|].
  apply (c04_w3c_rev_b w_case); vm_compute; reflexivity.
Qed.

(* (2) with revocation: a revocable credential shown for the status list the verifier holds, under a request-wide interval and
   an interval of its own on a predicate; a second, non-revocable credential. The sub-proof of the first carries the holder's
   non-revocation state and the searches require it *)
Definition r_req := {| rq_nonce := 5;
                       rq_attrs := [("a1", w_ai "NAME"); ("a2", w_ai "age")];
                       rq_preds := [("p1", {| pi_name := "age"; pi_type := GE; pi_value := 18; pi_restr := None; pi_nr := Some {| ifrom := Some 50; ito := Some 150 |} |})];
                       rq_nr := Some {| ifrom := None; ito := Some 100 |} |}.
Definition r_sel := [ {| pr_cred := s_cr; pr_ts := Some 100; pr_state := Some {| nrp_regkey := 1; nrp_acc := 0; nrp_valid := true |}; pr_attrs := [("a1", true)]; pr_preds := ["p1"] |};
                      {| pr_cred := s_c2; pr_ts := None; pr_state := None; pr_attrs := [("a2", true)]; pr_preds := [] |} ].
Definition r_case := mk_case r_req s_cx 7 r_sel [].
Example c04_w3c_rev_nonvacuous :
  w3c_rev_b r_case = true /\
  exists P cs, create_w3c pcfg_fixed r_req s_cx 7 r_sel = ROk P /\
    mapR (fun c => bind (of_opt (wc_pv c)) (fun pv => ROk (c, pv))) (wp_creds P) = ROk cs /\
    check_request_data cfg_fixed r_req s_cx cs = ROk [0; 0] /\
    verify_w3c cfg_fixed r_req P s_cx = Accept.
Proof.
  split; [vm_compute; reflexivity|]. eexists. eexists. split; [vm_compute; reflexivity|]. split; [vm_compute; reflexivity|]. split; [vm_compute; reflexivity|].
  apply (c04_w3c_rev_b r_case); vm_compute; reflexivity.
Qed.

(* (3) with restrictions, as hypotheses met by the entries built *)
Definition w_req_r :=
  {| rq_nonce := 5;
     rq_attrs := [("a1", {| ai_name := Some "N a m e"; ai_names := None; ai_nr := None;
                            ai_restr := Some (And [Eq "cred_def_id" "creddef:one"; Eq "attr::name::value" "Alex"]) |});
                  ("a3", w_ai "ROLE"); ("a4", w_ai "name");
                  ("g1", {| ai_name := None; ai_names := Some ["Role"; "role"]; ai_nr := None; ai_restr := Some (Or [Eq "issuer_id" "nobody"; Eq "schema_name" "t"]) |});
                  ("g2", w_grp ["NAME"; "age"])];
     rq_preds := [("p1", {| pi_name := "AGE"; pi_type := GE; pi_value := 18; pi_nr := None; pi_restr := Some (Not (Eq "schema_name" "t")) |}); ("p2", w_pi "age" LT 65)];
     rq_nr := None |}.
Example c04_w3c_restricted_nonvacuous :
  w3c_rev_b (mk_case w_req_r z_cx 7 w_sel []) = false /\
  exists P, create_w3c pcfg_fixed w_req_r z_cx 7 w_sel = ROk P /\ verify_w3c cfg_fixed w_req_r P z_cx = Accept.
Proof.
  split; [vm_compute; reflexivity|]. eexists. split; [vm_compute; reflexivity|].
  apply (c04_w3c_rev w_req_r z_cx 7 w_sel); [vm_compute; reflexivity| | |vm_compute; reflexivity].
  - intros p subj sp r b ai Hp Hrb Has Hsub. cbn in Hp. destruct Hp as [<-|[<-|[]]]; cbn [pr_attrs] in Hrb.
    + destruct Hrb as [E|[E|[E|[]]]]; inversion E; subst r b; vm_compute in Has; inversion Has; subst ai; cbn [ai_restr w_ai w_grp]; try exact I.
      vm_compute in Hsub. inversion Hsub; subst subj. eexists. split; vm_compute; reflexivity.
    + destruct Hrb as [E|[E|[]]]; inversion E; subst r b; vm_compute in Has; inversion Has; subst ai; cbn [ai_restr w_ai w_grp]; try exact I.
      vm_compute in Hsub. inversion Hsub; subst subj. eexists. split; vm_compute; reflexivity.
  - intros p subj sp r pi Hp Hr Has Hsub. cbn in Hp. destruct Hp as [<-|[<-|[]]]; cbn [pr_preds] in Hr.
    + destruct Hr as [<-|[<-|[]]]; vm_compute in Has; inversion Has; subst pi; cbn [pi_restr w_pi]; try exact I.
      vm_compute in Hsub. inversion Hsub; subst subj. eexists. split; vm_compute; reflexivity.
    + destruct Hr.
Qed.
Print Assumptions c04_w3c_rev.
Print Assumptions c04_w3c_rev_nonvacuous.
