(* GENERATED from /repo by translator/gen.py on every run. Do not edit. *)
From Coq Require Import List String ZArith.
Import ListNotations.
Open Scope string_scope.

Definition gen_encode_sites : list (string * string * string) :=
  [ ("src/data_types/credential.rs", "encode", "calls_add_raw");
    ("src/data_types/w3c/credential_attributes.rs", "encode", "calls_add_raw");
    ("src/data_types/w3c/credential_attributes.rs", "from", "parses_i32");
    ("src/ffi/credential.rs", "_encoded_credential_values", "calls_add_raw");
    ("src/ffi/credential.rs", "anoncreds_encode_credential_attributes", "calls_encode");
    ("src/services/helpers.rs", "encode_credential_attribute", "hashes");
    ("src/services/helpers.rs", "encode_credential_attribute", "parses_i32");
    ("src/services/tails.rs", "write", "hashes");
    ("src/services/types.rs", "add_raw", "calls_encode");
    ("src/services/verifier.rs", "normalize_encoded_attr", "parses_i32");
    ("src/services/w3c/types.rs", "add", "parses_i32");
    ("src/services/w3c/verifier.rs", "check_requested_attribute", "calls_encode");
    ("src/services/w3c/verifier.rs", "verify_credential_subject", "calls_encode") ].
