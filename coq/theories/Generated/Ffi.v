(* GENERATED from /repo by translator/gen.py on every run. Do not edit. *)
From Coq Require Import List String ZArith.
Import ListNotations.
Open Scope string_scope.

Definition gen_ffi_functions : list (string * list string * list string * bool) :=
  [ ("anoncreds_buffer_free", [], [], true);
    ("anoncreds_create_credential", ["cred_p"], ["cred_p"], true);
    ("anoncreds_create_credential_definition", ["cred_def_p"; "cred_def_pvt_p"; "key_proof_p"], ["cred_def_p"; "cred_def_pvt_p"; "key_proof_p"], true);
    ("anoncreds_create_credential_offer", ["cred_offer_p"], ["cred_offer_p"], true);
    ("anoncreds_create_credential_request", ["cred_req_p"; "cred_req_meta_p"], ["cred_req_meta_p"; "cred_req_p"], true);
    ("anoncreds_create_link_secret", ["link_secret_p"], ["link_secret_p"], true);
    ("anoncreds_create_or_update_revocation_state", ["rev_state_p"], ["rev_state_p"], true);
    ("anoncreds_create_presentation", ["presentation_p"], ["presentation_p"], true);
    ("anoncreds_create_revocation_registry_def", ["reg_def_p"; "reg_def_private_p"], ["reg_def_p"; "reg_def_private_p"], true);
    ("anoncreds_create_revocation_status_list", ["rev_status_list_p"], ["rev_status_list_p"], true);
    ("anoncreds_create_schema", ["result_p"], ["result_p"], true);
    ("anoncreds_create_w3c_credential", ["cred_p"], ["cred_p"], true);
    ("anoncreds_create_w3c_presentation", ["presentation_p"], ["presentation_p"], true);
    ("anoncreds_credential_definition_from_json", ["result_p"], ["result_p"], true);
    ("anoncreds_credential_definition_private_from_json", ["result_p"], ["result_p"], true);
    ("anoncreds_credential_from_json", ["result_p"], ["result_p"], true);
    ("anoncreds_credential_from_w3c", ["cred_p"], ["cred_p"], true);
    ("anoncreds_credential_get_attribute", ["result_p"], ["result_p"], true);
    ("anoncreds_credential_offer_from_json", ["result_p"], ["result_p"], true);
    ("anoncreds_credential_request_from_json", ["result_p"], ["result_p"], true);
    ("anoncreds_credential_request_metadata_from_json", ["result_p"], ["result_p"], true);
    ("anoncreds_credential_to_w3c", ["cred_p"], ["cred_p"], true);
    ("anoncreds_encode_credential_attributes", ["result_p"], ["result_p"], true);
    ("anoncreds_generate_nonce", ["nonce_p"], ["nonce_p"], true);
    ("anoncreds_get_current_error", ["error_json_p"], ["error_json_p"], true);
    ("anoncreds_key_correctness_proof_from_json", ["result_p"], ["result_p"], true);
    ("anoncreds_object_free", [], [], true);
    ("anoncreds_object_get_json", ["result_p"], ["result_p"], true);
    ("anoncreds_object_get_type_name", ["result_p"], ["result_p"], true);
    ("anoncreds_presentation_from_json", ["result_p"], ["result_p"], true);
    ("anoncreds_presentation_request_from_json", ["result_p"], ["result_p"], true);
    ("anoncreds_process_credential", ["cred_p"], ["cred_p"], true);
    ("anoncreds_process_w3c_credential", ["cred_p"], ["cred_p"], true);
    ("anoncreds_revocation_registry_definition_from_json", ["result_p"], ["result_p"], true);
    ("anoncreds_revocation_registry_definition_get_attribute", ["result_p"], ["result_p"], true);
    ("anoncreds_revocation_registry_definition_private_from_json", ["result_p"], ["result_p"], true);
    ("anoncreds_revocation_registry_from_json", ["result_p"], ["result_p"], true);
    ("anoncreds_revocation_state_from_json", ["result_p"], ["result_p"], true);
    ("anoncreds_revocation_status_list_from_json", ["result_p"], ["result_p"], true);
    ("anoncreds_schema_from_json", ["result_p"], ["result_p"], true);
    ("anoncreds_set_default_logger", [], [], true);
    ("anoncreds_update_revocation_status_list", ["new_rev_status_list_p"], ["new_rev_status_list_p"], true);
    ("anoncreds_update_revocation_status_list_timestamp_only", ["rev_status_list_p"], ["rev_status_list_p"], true);
    ("anoncreds_verify_presentation", ["result_p"], ["result_p"], true);
    ("anoncreds_verify_w3c_presentation", ["result_p"], ["result_p"], true);
    ("anoncreds_version", [], [], true);
    ("anoncreds_w3c_credential_from_json", ["result_p"], ["result_p"], true);
    ("anoncreds_w3c_credential_get_integrity_proof_details", ["cred_proof_info_p"], ["cred_proof_info_p"], true);
    ("anoncreds_w3c_credential_proof_get_attribute", ["result_p"], ["result_p"], true);
    ("anoncreds_w3c_presentation_from_json", ["result_p"], ["result_p"], true) ].
Definition gen_ffi_entry_timestamp_none_when : string := "self.timestamp < 0".
Definition gen_ffi_opt_load_zero_is_none : bool := true.
Definition gen_ffi_opt_load_miss_is_error : bool := true.
Definition gen_ffi_status_list_type_error_propagated : bool := true.
Definition gen_ffi_u32_try_into_sites : Z := 3%Z.
Definition gen_ffi_timestamp_none_sites : Z := 2%Z.
Definition gen_ffi_length_checks : Z := 4%Z.
Definition gen_ffi_error_codes : list (string * Z) := [("Success", 0%Z); ("Input", 1%Z); ("IOError", 2%Z); ("InvalidState", 3%Z); ("Unexpected", 4%Z); ("CredentialRevoked", 5%Z); ("InvalidUserRevocId", 6%Z); ("ProofRejected", 7%Z); ("RevocationRegistryFull", 8%Z)].
