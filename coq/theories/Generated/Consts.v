(* GENERATED from /repo by translator/gen.py on every run. Do not edit. *)
From Coq Require Import List String ZArith.
Import ListNotations.
Open Scope string_scope.

Definition gen_store_counter_fetch_add_seqcst : bool := true.
Definition gen_store_create_next_then_locked_insert : bool := true.
Definition gen_store_load_locked_get_cloned : bool := true.
Definition gen_store_remove_locked_remove : bool := true.
Definition gen_store_single_lock : bool := true.
Definition gen_store_list_load_entrywise : bool := true.
Definition gen_tails_blob_tag_sz : Z := 2%Z.
Definition gen_tails_version : list Z := [0%Z; 2%Z].
Definition gen_tails_disarm_before_rename : bool := false.
Definition gen_qualifiable_tags : list string := ["issuer_did"; "cred_def_id"; "schema_id"; "schema_issuer_did"; "rev_reg_id"].
Definition gen_max_attributes_count : Z := 125%Z.
Definition gen_regex_uri_identifier : string := "^[a-zA-Z][a-zA-Z0-9\+\-\.]*:.+$".
Definition gen_regex_legacy_did_identifier : string := "^[1-9A-HJ-NP-Za-km-z]{21,22}$".
Definition gen_regex_legacy_schema_identifier : string := "^[1-9A-HJ-NP-Za-km-z]{21,22}:2:[^:]+:[0-9.]+$".
Definition gen_regex_legacy_cred_def_identifier : string := "^[1-9A-HJ-NP-Za-km-z]{21,22}:3:CL:(([1-9][0-9]*)|([a-zA-Z0-9]{21,22}:2:[^:]+:[0-9.]+)):([^:]+)?$".
Definition gen_regex_legacy_rev_reg_def_identifier : string := "^[1-9A-HJ-NP-Za-km-z]{21,22}:4:[1-9A-HJ-NP-Za-km-z]{21,22}:3:CL:(([1-9][0-9]*)|([a-zA-Z0-9]{21,22}:2:[^:]+:[0-9.]+)):([^:]+):CL_ACCUM:([^:]+)?$".
