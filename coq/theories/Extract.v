(* Extraction of the executable model. ExtrOcamlBasic only: bool, option, unit, list,
   prod, sumbool, sumor map to their OCaml counterparts; nat, N, Z, positive, string,
   ascii stay the extracted inductives. No Extract Constant. *)
From Coq Require Import ExtrOcamlBasic.
From AV Require Import Model.Sexp Model.Cases.
Extraction "extracted/model.ml" check_case.
