//! C18: the object-handle store under concurrency, through the exported C functions only.
//! Several threads run generated programs of create (from JSON), JSON export, type-name query,
//! typed use (a function that demands a status list) and free over shared and private handles,
//! plus stale and never-issued handles. Every call is stamped with a global clock before and after;
//! the recorded history is checked for linearizability against the sequential map by the extracted
//! checker. Case: (C18 id R threads (event...)) with events
//!   (c tid inv res type handle|e) (g tid inv res h (ok content)|e) (n tid inv res h (ok type)|e)
//!   (u tid inv res h (ok newhandle)|e) (f tid inv res h)
//!   (r tid inv res h (ok 0)|e|(ok -1)): a call with a LIST of handles, h first (resolved / not resolved / neither)
use crate::out::Out;
use crate::rng::Rng;
use crate::world;
use ffi_support::ByteBuffer;
use serde_json::json;
use std::os::raw::c_char;
use std::sync::atomic::{AtomicU64, AtomicUsize, Ordering};
use std::sync::{Arc, Barrier};

extern "C" {
    fn anoncreds_schema_from_json(json: ByteBuffer, result_p: *mut usize) -> usize;
    fn anoncreds_revocation_status_list_from_json(json: ByteBuffer, result_p: *mut usize) -> usize;
    fn anoncreds_object_get_json(handle: usize, result_p: *mut ByteBuffer) -> usize;
    fn anoncreds_object_get_type_name(handle: usize, result_p: *mut *const c_char) -> usize;
    fn anoncreds_object_free(handle: usize);
    fn anoncreds_buffer_free(buffer: ByteBuffer);
    fn anoncreds_string_free(s: *mut c_char);
    fn anoncreds_update_revocation_status_list_timestamp_only(timestamp: i64, list: usize, result_p: *mut usize) -> usize;
    fn anoncreds_revocation_state_from_json(json: ByteBuffer, result_p: *mut usize) -> usize;
    fn anoncreds_revocation_registry_definition_from_json(json: ByteBuffer, result_p: *mut usize) -> usize;
    fn anoncreds_credential_definition_from_json(json: ByteBuffer, result_p: *mut usize) -> usize;
    fn anoncreds_revocation_registry_definition_private_from_json(json: ByteBuffer, result_p: *mut usize) -> usize;
    fn anoncreds_update_revocation_status_list(cred_def: usize, reg_def: usize, reg_priv: usize, list: usize, issued: RawList, revoked: RawList, timestamp: i64, result_p: *mut usize) -> usize;
    fn anoncreds_presentation_from_json(json: ByteBuffer, result_p: *mut usize) -> usize;
    fn anoncreds_presentation_request_from_json(json: ByteBuffer, result_p: *mut usize) -> usize;
    #[allow(improper_ctypes)]
    fn anoncreds_verify_presentation(presentation: usize, pres_req: usize, schemas: HList, schema_ids: HList, cred_defs: HList, cred_def_ids: HList, rev_reg_defs: HList, rev_reg_def_ids: HList, rev_status_list: HList, overrides: HList, result_p: *mut i8) -> usize;
    fn anoncreds_create_or_update_revocation_state(rev_reg_def: usize, list: usize, idx: i64, tails_path: *const c_char, rev_state: usize, old_list: usize, result_p: *mut usize) -> usize;
}

/// the C layout of the library's list argument (count, data)
#[repr(C)]
struct RawList {
    count: usize,
    data: *const i32,
}

/// a list of handles (or an empty list of anything: count 0, no data)
#[repr(C)]
struct HList {
    count: usize,
    data: *const usize,
}
fn no_list() -> HList {
    HList { count: 0, data: std::ptr::null() }
}
/// the call with a LIST of handles: verification of a fixed presentation (self-attested values only) against its request,
/// with `first` followed by `filler` copies of a status list that is never freed as the status lists. The list is
/// resolved entry by entry before anything else is looked at, so the return code tells whether `first` resolved
/// to a status list (the code measured for a live one at start-up) or not (the code measured for handle 0).
fn list_call(sh: &Shared, first: usize) -> usize {
    let mut hs = vec![first];
    hs.extend(std::iter::repeat(sh.list_h).take(sh.filler));
    let mut ok: i8 = 0;
    unsafe {
        anoncreds_verify_presentation(sh.pres_h, sh.req_h, no_list(), no_list(), no_list(), no_list(), no_list(), no_list(), HList { count: hs.len(), data: hs.as_ptr() }, no_list(), &mut ok)
    }
}

#[derive(Clone, Debug)]
enum Op {
    Create(usize, usize), // type (0 schema, 1 status list), document index; publishes into a slot
    Get(Target),
    Name(Target),
    Use(Target),
    /// a call with an OPTIONAL handle argument (0 = not supplied): the older revocation state
    OptUse(Target),
    /// a call that takes a list of handles, the target first
    ListUse(Target),
    /// wait (busy) for about so many microseconds; not recorded
    Spin(u64),
    Free(Target),
}
#[derive(Clone, Debug)]
enum Target {
    Slot(usize),   // whatever handle is currently published in the shared slot (0 = nothing yet)
    Own(usize),    // the k-th handle this thread created itself
    Raw(usize),    // a literal handle value (never issued / far ahead)
}

struct Shared {
    clock: AtomicU64,
    slots: Vec<AtomicUsize>,
    docs: Vec<Vec<Vec<u8>>>, // [type][doc] -> JSON bytes
    /// infrastructure objects created before the threads start and never freed
    reg_def_h: usize,
    list_h: usize,
    cred_def_h: usize,
    reg_priv_h: usize,
    pres_h: usize,
    req_h: usize,
    filler: usize,
    /// return codes of the list call measured at start-up: first entry a live status list / handle 0
    rc_resolved: usize,
    rc_invalid: usize,
    tails_path: std::ffi::CString,
}

fn buf(bytes: &[u8]) -> ByteBuffer {
    ByteBuffer::from_vec(bytes.to_vec())
}

fn content_id(sh: &Shared, bytes: &[u8]) -> i64 {
    let v: serde_json::Value = match serde_json::from_slice(bytes) {
        Ok(v) => v,
        Err(_) => return 999,
    };
    for (t, docs) in sh.docs.iter().enumerate() {
        for (d, b) in docs.iter().enumerate() {
            if serde_json::from_slice::<serde_json::Value>(b).ok().as_ref() == Some(&v) {
                return (t * 10 + d) as i64;
            }
        }
    }
    // a status list derived by the typed use: same list, another timestamp
    if v.get("revocationList").is_some() {
        return 500;
    }
    if v.get("witness").is_some() {
        return 600;
    }
    999
}

fn run_thread(tid: usize, prog: &[Op], sh: &Shared, barrier: &Barrier, slot_base: usize) -> Vec<String> {
    let mut ev = vec![];
    let mut own: Vec<usize> = vec![];
    let _ = slot_base;
    barrier.wait();
    for op in prog {
        let resolve = |t: &Target, own: &Vec<usize>| -> usize {
            match t {
                Target::Slot(s) => sh.slots[*s % sh.slots.len()].load(Ordering::SeqCst),
                Target::Own(k) => if own.is_empty() { 0 } else { own[*k % own.len()] },
                Target::Raw(h) => *h,
            }
        };
        match op {
            Op::Create(ty, d) => {
                let doc = &sh.docs[*ty][*d % sh.docs[*ty].len()];
                let mut h: usize = 0;
                let inv = sh.clock.fetch_add(1, Ordering::SeqCst);
                let rc = unsafe {
                    match *ty {
                        0 => anoncreds_schema_from_json(buf(doc), &mut h),
                        1 => anoncreds_revocation_status_list_from_json(buf(doc), &mut h),
                        _ => anoncreds_revocation_state_from_json(buf(doc), &mut h),
                    }
                };
                let res = sh.clock.fetch_add(1, Ordering::SeqCst);
                if rc == 0 {
                    own.push(h);
                    sh.slots[(tid + own.len()) % sh.slots.len()].store(h, Ordering::SeqCst);
                    ev.push(format!("(c {} {} {} {} {} {})", tid, inv, res, ty, (*ty * 10 + *d % sh.docs[*ty].len()), h));
                } else {
                    ev.push(format!("(c {} {} {} {} 0 e)", tid, inv, res, ty));
                }
            }
            Op::Get(t) => {
                let h = resolve(t, &own);
                let mut b = ByteBuffer::default();
                let inv = sh.clock.fetch_add(1, Ordering::SeqCst);
                let rc = unsafe { anoncreds_object_get_json(h, &mut b) };
                let res = sh.clock.fetch_add(1, Ordering::SeqCst);
                if rc == 0 {
                    let cid = content_id(sh, b.as_slice());
                    unsafe { anoncreds_buffer_free(b) };
                    ev.push(format!("(g {} {} {} {} (ok {}))", tid, inv, res, h, cid));
                } else {
                    ev.push(format!("(g {} {} {} {} e)", tid, inv, res, h));
                }
            }
            Op::Name(t) => {
                let h = resolve(t, &own);
                let mut p: *const c_char = std::ptr::null();
                let inv = sh.clock.fetch_add(1, Ordering::SeqCst);
                let rc = unsafe { anoncreds_object_get_type_name(h, &mut p) };
                let res = sh.clock.fetch_add(1, Ordering::SeqCst);
                if rc == 0 && !p.is_null() {
                    let name = unsafe { std::ffi::CStr::from_ptr(p) }.to_string_lossy().to_string();
                    unsafe { anoncreds_string_free(p as *mut c_char) };
                    let ty = match name.as_str() {
                        "Schema" => 0,
                        "RevocationStatusList" => 1,
                        "CredentialRevocationState" => 2,
                        _ => 9,
                    };
                    ev.push(format!("(n {} {} {} {} (ok {}))", tid, inv, res, h, ty));
                } else {
                    ev.push(format!("(n {} {} {} {} e)", tid, inv, res, h));
                }
            }
            Op::Use(t) => {
                let h = resolve(t, &own);
                let mut nh: usize = 0;
                let inv = sh.clock.fetch_add(1, Ordering::SeqCst);
                // three typed uses that derive a new list from the one named: a new timestamp only, and the full
                // update with nothing issued and nothing revoked, without and with a timestamp
                let none = || RawList { count: 0, data: std::ptr::null() };
                let rc = unsafe {
                    match h.wrapping_add(tid) % 3 {
                        0 => anoncreds_update_revocation_status_list_timestamp_only(7, h, &mut nh),
                        1 => anoncreds_update_revocation_status_list(sh.cred_def_h, sh.reg_def_h, sh.reg_priv_h, h, none(), none(), 0, &mut nh),
                        _ => anoncreds_update_revocation_status_list(sh.cred_def_h, sh.reg_def_h, sh.reg_priv_h, h, none(), none(), 9, &mut nh),
                    }
                };
                let res = sh.clock.fetch_add(1, Ordering::SeqCst);
                if rc == 0 {
                    own.push(nh);
                    ev.push(format!("(u {} {} {} {} (ok {}))", tid, inv, res, h, nh));
                } else {
                    ev.push(format!("(u {} {} {} {} e)", tid, inv, res, h));
                }
            }
            Op::Spin(us) => {
                let t0 = std::time::Instant::now();
                while (t0.elapsed().as_micros() as u64) < *us {
                    std::hint::spin_loop();
                }
            }
            Op::ListUse(t) => {
                if sh.rc_resolved == sh.rc_invalid {
                    continue; // the two outcomes cannot be told apart by the return code: nothing to record
                }
                let h = resolve(t, &own);
                let inv = sh.clock.fetch_add(1, Ordering::SeqCst);
                let rc = list_call(sh, h);
                let res = sh.clock.fetch_add(1, Ordering::SeqCst);
                if rc == sh.rc_resolved {
                    ev.push(format!("(r {} {} {} {} (ok 0))", tid, inv, res, h));
                } else if rc == sh.rc_invalid {
                    ev.push(format!("(r {} {} {} {} e)", tid, inv, res, h));
                } else {
                    ev.push(format!("(r {} {} {} {} (ok -1))", tid, inv, res, h)); // neither: e.g. a panic inside the call
                }
            }
            Op::OptUse(t) => {
                let h = resolve(t, &own);
                let mut nh: usize = 0;
                let inv = sh.clock.fetch_add(1, Ordering::SeqCst);
                let rc = unsafe { anoncreds_create_or_update_revocation_state(sh.reg_def_h, sh.list_h, 1, sh.tails_path.as_ptr(), h, 0, &mut nh) };
                let res = sh.clock.fetch_add(1, Ordering::SeqCst);
                if rc == 0 {
                    own.push(nh);
                    ev.push(format!("(o {} {} {} {} (ok {}))", tid, inv, res, h, nh));
                } else {
                    if std::env::var("AVH_DEBUG").is_ok() && h == 0 {
                        extern "C" {
                            fn anoncreds_get_current_error(p: *mut *const c_char) -> usize;
                        }
                        let mut p: *const c_char = std::ptr::null();
                        unsafe { anoncreds_get_current_error(&mut p) };
                        if !p.is_null() {
                            eprintln!("OPT0 rc={} {}", rc, unsafe { std::ffi::CStr::from_ptr(p) }.to_string_lossy());
                        }
                    }
                    ev.push(format!("(o {} {} {} {} e)", tid, inv, res, h));
                }
            }
            Op::Free(t) => {
                let h = resolve(t, &own);
                let inv = sh.clock.fetch_add(1, Ordering::SeqCst);
                unsafe { anoncreds_object_free(h) };
                let res = sh.clock.fetch_add(1, Ordering::SeqCst);
                ev.push(format!("(f {} {} {} {})", tid, inv, res, h));
            }
        }
    }
    // leave nothing behind: free what this thread created (recorded like any other free)
    for h in own {
        let inv = sh.clock.fetch_add(1, Ordering::SeqCst);
        unsafe { anoncreds_object_free(h) };
        let res = sh.clock.fetch_add(1, Ordering::SeqCst);
        ev.push(format!("(f {} {} {} {})", tid, inv, res, h));
    }
    ev
}

fn gen_prog(r: &mut Rng, len: usize, nslots: usize) -> Vec<Op> {
    let mut p = vec![Op::Create(r.below(3) as usize, r.below(3) as usize)];
    for _ in 0..len {
        let t = match r.below(10) {
            0 => Target::Raw(*r.pick(&[0usize, 0, 999_999_999, usize::MAX])),
            1..=4 => Target::Own(r.below(4) as usize),
            _ => Target::Slot(r.below(nslots as u64) as usize),
        };
        p.push(match r.below(10) {
            0 | 1 => Op::Create(r.below(3) as usize, r.below(3) as usize),
            2 | 3 => Op::Get(t),
            4 => Op::Name(t),
            5 | 6 => Op::Use(t),
            7 => if r.below(2) == 0 { Op::OptUse(t) } else { Op::ListUse(t) },
            _ => Op::Free(t),
        });
    }
    p
}

pub fn run(tier: &str, seed: u64, outdir: &str) {
    let mut out = Out::new(outdir);
    let mut r = Rng::new(seed ^ 0xC18);
    let thorough = tier == "thorough";
    // documents: three schemas (one large), three status lists of one real registry
    let cd = world::make_cred_def("did:web:o.example/schema/1", "s", "1.0", "did:web:o.example", &["name", "age"], "did:web:o.example/cd/1", "did:web:o.example", true);
    let tails = format!("{}/tails", outdir);
    let reg = world::make_registry(&cd, "did:web:o.example/reg/1", "r1", 4, &tails);
    let l0 = world::initial_list(&cd, &reg, true, Some(100));
    let l1 = anoncreds::issuer::update_revocation_status_list_timestamp_only(200, &l0);
    let l2 = anoncreds::issuer::update_revocation_status_list(&cd.cred_def, &reg.def, &reg.def_priv, &l0, None, Some([1u32].into_iter().collect()), Some(300)).unwrap();
    let big: Vec<String> = (0..120).map(|i| format!("attribute_number_{}", i)).collect();
    let schemas = vec![
        json!({"name": "a", "version": "1.0", "issuerId": "did:web:x", "attrNames": ["name", "age"]}),
        json!({"name": "b", "version": "2.0", "issuerId": "did:web:y", "attrNames": ["k"]}),
        json!({"name": "c", "version": "3.0", "issuerId": "did:web:z", "attrNames": big}),
    ];
    let tails_path = reg.def.value.tails_location.clone();
    let states: Vec<Vec<u8>> = [(&l0, 1u32), (&l0, 2), (&l2, 2)]
        .iter()
        .map(|(l, i)| serde_json::to_vec(&anoncreds::prover::create_or_update_revocation_state(&tails_path, &reg.def, l, *i, None, None).unwrap()).unwrap())
        .collect();
    let docs = vec![
        schemas.iter().map(|s| serde_json::to_vec(s).unwrap()).collect::<Vec<_>>(),
        vec![serde_json::to_vec(&l0).unwrap(), serde_json::to_vec(&l1).unwrap(), serde_json::to_vec(&l2).unwrap()],
        states,
    ];
    let (mut reg_def_h, mut list_h, mut cred_def_h, mut reg_priv_h) = (0usize, 0usize, 0usize, 0usize);
    unsafe {
        assert_eq!(anoncreds_credential_definition_from_json(buf(&serde_json::to_vec(&cd.cred_def).unwrap()), &mut cred_def_h), 0);
        assert_eq!(anoncreds_revocation_registry_definition_private_from_json(buf(&serde_json::to_vec(&reg.def_priv).unwrap()), &mut reg_priv_h), 0);
        assert_eq!(anoncreds_revocation_registry_definition_from_json(buf(&serde_json::to_vec(&reg.def).unwrap()), &mut reg_def_h), 0);
        assert_eq!(anoncreds_revocation_status_list_from_json(buf(&serde_json::to_vec(&l0).unwrap()), &mut list_h), 0);
    }
    // a presentation (self-attested values only) and its request, for the call with a list of handles
    let (mut pres_h, mut req_h) = (0usize, 0usize);
    {
        use anoncreds::data_types::pres_request::PresentationRequest;
        use anoncreds::types::PresentCredentials;
        let mk = |referent: &str| -> PresentationRequest {
            serde_json::from_value(json!({"nonce": "123432421212", "name": "r", "version": "0.1",
                "requested_attributes": {referent: {"name": "nickname"}}, "requested_predicates": {}})).unwrap()
        };
        let asked = mk("attr1_referent");
        let ls = anoncreds::prover::create_link_secret().unwrap();
        let sa: std::collections::HashMap<String, String> = [("attr1_referent".to_string(), "nick".to_string())].into_iter().collect();
        let pres = anoncreds::prover::create_presentation(&asked, PresentCredentials::default(), Some(sa), &ls, &Default::default(), &Default::default()).unwrap();
        unsafe {
            assert_eq!(anoncreds_presentation_from_json(buf(&serde_json::to_vec(&pres).unwrap()), &mut pres_h), 0);
            assert_eq!(anoncreds_presentation_request_from_json(buf(&serde_json::to_vec(&asked).unwrap()), &mut req_h), 0);
        }
    }
    let filler = 2000usize;
    let mut probe = Shared { clock: AtomicU64::new(1), slots: vec![], docs: vec![], reg_def_h, list_h, cred_def_h, reg_priv_h, pres_h, req_h, filler, rc_resolved: 0, rc_invalid: 0, tails_path: std::ffi::CString::new(tails_path.clone()).unwrap() };
    let t0 = std::time::Instant::now();
    probe.rc_resolved = list_call(&probe, list_h);
    let list_us = t0.elapsed().as_micros() as u64;
    if std::env::var("AVH_DEBUG").is_ok() {
        extern "C" {
            fn anoncreds_get_current_error(p: *mut *const c_char) -> usize;
        }
        let mut p: *const c_char = std::ptr::null();
        unsafe { anoncreds_get_current_error(&mut p) };
        if !p.is_null() {
            eprintln!("list call, resolved: {}", unsafe { std::ffi::CStr::from_ptr(p) }.to_string_lossy());
        }
    }
    probe.rc_invalid = list_call(&probe, 0);
    let (rc_resolved, rc_invalid) = (probe.rc_resolved, probe.rc_invalid);
    if std::env::var("AVH_DEBUG").is_ok() {
        eprintln!("list call: resolved rc={} invalid rc={} {} us", rc_resolved, rc_invalid, list_us);
    }
    let runs = if thorough { 6000 } else { 400 };
    for k in 0..runs {
        let nthreads = 2 + (k % 3) as usize;
        let nslots = 4;
        let sh = Arc::new(Shared { clock: AtomicU64::new(1), slots: (0..nslots).map(|_| AtomicUsize::new(0)).collect(), docs: docs.clone(), reg_def_h, list_h, cred_def_h, reg_priv_h, pres_h, req_h, filler, rc_resolved, rc_invalid, tails_path: std::ffi::CString::new(tails_path.clone()).unwrap() });
        let progs: Vec<Vec<Op>> = if k % 4 == 3 {
            // directed: one thread uses a list whose first entry another thread frees at a moment swept over the call
            // (thread 0 publishes its first object into slot 1)
            let mut ps = vec![
                vec![Op::Create(1, r.below(3) as usize), Op::ListUse(Target::Own(0)), Op::Get(Target::Own(0)), Op::Create(0, 0), Op::Get(Target::Own(1))],
                vec![Op::Create(0, 1), Op::Spin(r.below(list_us + 60)), Op::Free(Target::Slot(1)), Op::Name(Target::Slot(1)), Op::Create(1, 0), Op::Get(Target::Own(1))],
            ];
            for _ in 2..nthreads {
                ps.push(vec![Op::Create(2, 0), Op::Spin(r.below(list_us + 60)), Op::ListUse(Target::Slot(1)), Op::Get(Target::Own(0))]);
            }
            ps
        } else {
            (0..nthreads).map(|_| { let len = 6 + r.below(10) as usize; gen_prog(&mut r, len, nslots) }).collect()
        };
        let barrier = Arc::new(Barrier::new(nthreads));
        let mut handles = vec![];
        for (tid, prog) in progs.iter().cloned().enumerate() {
            let sh = sh.clone();
            let barrier = barrier.clone();
            handles.push(std::thread::spawn(move || run_thread(tid, &prog, &sh, &barrier, 0)));
        }
        let mut events: Vec<String> = vec![];
        let mut crashed = false;
        for h in handles {
            match h.join() {
                Ok(ev) => events.extend(ev),
                Err(_) => crashed = true,
            }
        }
        let id = out.next_id();
        out.case(
            &format!("(C18 {} R {} {} ({}))", id, nthreads, if crashed { "crashed" } else { "finished" }, events.join(" ")),
            &format!("threads:{}", nthreads),
            || json!({"threads": nthreads, "programs": format!("{:?}", progs), "events": events.len()}),
        );
    }
    let _ = std::fs::remove_dir_all(&tails);
    out.finish();
}
