//! Order-preserving parallel map over jobs (std threads only).
pub fn par_map<J: Sync, R: Send>(jobs: &[J], threads: usize, f: impl Fn(usize, &J) -> R + Sync) -> Vec<R> {
    let n = jobs.len();
    let next = std::sync::atomic::AtomicUsize::new(0);
    let results: std::sync::Mutex<Vec<Option<R>>> = std::sync::Mutex::new((0..n).map(|_| None).collect());
    std::thread::scope(|s| {
        for _ in 0..threads.max(1) {
            s.spawn(|| loop {
                let i = next.fetch_add(1, std::sync::atomic::Ordering::SeqCst);
                if i >= n {
                    break;
                }
                let r = f(i, &jobs[i]);
                results.lock().unwrap()[i] = Some(r);
            });
        }
    });
    results.into_inner().unwrap().into_iter().map(|x| x.unwrap()).collect()
}
pub fn ncpu() -> usize {
    std::thread::available_parallelism().map(|n| n.get()).unwrap_or(4)
}
