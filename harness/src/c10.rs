//! C10: revocation states track the status list.
//! A registry (by default / on demand), a history of updates giving lists L0..Lm with distinct
//! timestamps, one credential issued at index i against some list Ls. For every later list Lk the
//! holder's state is derived (a) from scratch, (b) from the issuer-supplied witness, (c)
//! incrementally from earlier derivations; each state is used in a presentation with a
//! non-revocation interval that is verified against Lk by the library's verifier.
//! Case: (C10 id W n by_default idx s (bits...) ((kind k src accepted class) ...))
//!   kind: scratch | issuer | inc ; src = position of the source derivation (inc) or ()
//!   class = equality class of the witness under the crate's own ==
use crate::out::Out;
use crate::rng::Rng;
use crate::sx;
use crate::world::{self, Classes, CredDefSetup, RegSetup};
use anoncreds::data_types::credential::Credential;
use anoncreds::data_types::link_secret::LinkSecret;
use anoncreds::types::{CredentialRevocationConfig, CredentialRevocationState, MakeCredentialValues, PresentCredentials, RevocationStatusList};
use anoncreds::{issuer, prover, verifier};
use serde_json::json;
use std::collections::{BTreeSet, HashMap};

struct Job {
    class: String,
    reg: usize,
    by_default: bool,
    idx: u32,
    /// updates before issuance, then after issuance: (issued, revoked)
    before: Vec<(Vec<u32>, Vec<u32>)>,
    after: Vec<(Vec<u32>, Vec<u32>)>,
    /// updates after issuance keep the timestamp of the list they start from (timestamp: None)
    same_ts: bool,
}

struct Ctx<'a> {
    cd: &'a CredDefSetup,
    ls: &'a LinkSecret,
    regs: &'a [RegSetup],
}

fn bits_s(l: &RevocationStatusList) -> String {
    world::list_bits(l).iter().map(|b| if *b { '1' } else { '0' }).collect()
}

fn accepted(cx: &Ctx, reg: &RegSetup, cred: &Credential, st: &CredentialRevocationState, list: &RevocationStatusList, ts: u64) -> &'static str {
    let req: anoncreds::data_types::pres_request::PresentationRequest = serde_json::from_value(json!({"nonce": "55512345", "name": "r", "version": "0.1",
        "requested_attributes": {"a": {"name": "name"}}, "requested_predicates": {}, "non_revoked": {"from": ts, "to": ts}}))
    .unwrap();
    let schemas: HashMap<_, _> = [(anoncreds::data_types::schema::SchemaId::new_unchecked(cx.cd.schema_id.clone()), cx.cd.schema.clone())].into_iter().collect();
    let cred_defs: HashMap<_, _> = [(anoncreds::data_types::cred_def::CredentialDefinitionId::new_unchecked(cx.cd.cred_def_id.clone()), cx.cd.cred_def.try_clone().unwrap())].into_iter().collect();
    let reg_defs: HashMap<_, _> = [(anoncreds::data_types::rev_reg_def::RevocationRegistryDefinitionId::new_unchecked(reg.rev_reg_id.clone()), reg.def.clone())].into_iter().collect();
    let res = std::panic::catch_unwind(std::panic::AssertUnwindSafe(|| {
        let mut pc = PresentCredentials::default();
        let mut ac = pc.add_credential(cred, Some(ts), Some(st));
        ac.add_requested_attribute("a", true);
        let p = prover::create_presentation(&req, pc, None, cx.ls, &schemas, &cred_defs)?;
        verifier::verify_presentation(&p, &req, &schemas, &cred_defs, Some(&reg_defs), Some(vec![list.clone()]), None)
    }));
    crate::vw::outcome_of(res)
}

fn upd_ts(cx: &Ctx, reg: &RegSetup, l: &RevocationStatusList, iss: &[u32], rev: &[u32], ts: Option<u64>) -> Option<RevocationStatusList> {
    issuer::update_revocation_status_list(
        &cx.cd.cred_def,
        &reg.def,
        &reg.def_priv,
        l,
        if iss.is_empty() { None } else { Some(iss.iter().cloned().collect::<BTreeSet<u32>>()) },
        if rev.is_empty() { None } else { Some(rev.iter().cloned().collect::<BTreeSet<u32>>()) },
        ts,
    )
    .ok()
}

fn run_job(cx: &Ctx, j: &Job) -> Option<String> {
    let reg = &cx.regs[j.reg];
    let mut lists: Vec<RevocationStatusList> = vec![world::initial_list(cx.cd, reg, j.by_default, Some(100))];
    let upd = |l: &RevocationStatusList, iss: &[u32], rev: &[u32], ts: u64| upd_ts(cx, reg, l, iss, rev, Some(ts));
    let upd_keep = |l: &RevocationStatusList, iss: &[u32], rev: &[u32]| upd_ts(cx, reg, l, iss, rev, None);
    let _unused = |l: &RevocationStatusList, iss: &[u32], rev: &[u32], ts: u64| {
        issuer::update_revocation_status_list(
            &cx.cd.cred_def,
            &reg.def,
            &reg.def_priv,
            l,
            if iss.is_empty() { None } else { Some(iss.iter().cloned().collect::<BTreeSet<u32>>()) },
            if rev.is_empty() { None } else { Some(rev.iter().cloned().collect::<BTreeSet<u32>>()) },
            Some(ts),
        )
        .ok()
    };
    for (iss, rev) in &j.before {
        let ts = 100 + 10 * lists.len() as u64;
        let nl = upd(lists.last().unwrap(), iss, rev, ts)?;
        lists.push(nl);
    }
    let s = lists.len() - 1;
    // issuance against list s
    let offer = issuer::create_credential_offer(cx.cd.schema_id.as_str().try_into().unwrap(), cx.cd.cred_def_id.as_str().try_into().unwrap(), &cx.cd.kcp).ok()?;
    let (req, md) = prover::create_credential_request(Some("entropy"), None, &cx.cd.cred_def, cx.ls, "ls", &offer).ok()?;
    let mut values = MakeCredentialValues::default();
    values.add_raw("name", "Alice").unwrap();
    values.add_raw("age", "30").unwrap();
    let mut cred = issuer::create_credential(
        &cx.cd.cred_def,
        &cx.cd.cred_def_priv,
        &offer,
        &req,
        values.into(),
        Some(CredentialRevocationConfig { reg_def: &reg.def, reg_def_private: &reg.def_priv, status_list: &lists[s], registry_idx: j.idx }),
    )
    .ok()?;
    prover::process_credential(&mut cred, &md, cx.ls, &cx.cd.cred_def, Some(&reg.def)).ok()?;
    let issuer_witness = cred.witness.clone()?;
    // an on-demand registry publishes the issuance as an update; a by-default registry needs none
    let mut first_after = s;
    if !j.by_default {
        let ts = 100 + 10 * lists.len() as u64;
        let nl = upd(lists.last().unwrap(), &[j.idx], &[], ts)?;
        lists.push(nl);
        first_after = s + 1;
    }
    for (iss, rev) in &j.after {
        let ts = 100 + 10 * lists.len() as u64;
        let nl = if j.same_ts { upd_keep(lists.last().unwrap(), iss, rev)? } else { upd(lists.last().unwrap(), iss, rev, ts)? };
        lists.push(nl);
    }
    let tails = reg.def.value.tails_location.clone();
    let mut classes: Classes<anoncreds::cl::Witness> = Classes::new();
    // derivations: (kind, k, src, state)
    let mut ders: Vec<(&'static str, usize, Option<usize>, Option<CredentialRevocationState>)> = vec![];
    for k in first_after..lists.len() {
        let ts = world::list_ts(&lists[k]).unwrap();
        // (a) from scratch
        let st = std::panic::catch_unwind(std::panic::AssertUnwindSafe(|| prover::create_or_update_revocation_state(&tails, &reg.def, &lists[k], j.idx, None, None))).ok().and_then(|r| r.ok());
        ders.push(("scratch", k, None, st));
        // (b) the issuer-supplied witness with this list
        let st = prover::create_revocation_state_with_witness(issuer_witness.clone(), &lists[k], ts).ok();
        ders.push(("issuer", k, None, st));
    }
    // (c) incrementally: from every earlier derivation that produced a state, to every later list
    let base = ders.len();
    for src in 0..base {
        let (_, ks, _, st) = &ders[src];
        let Some(st) = st.clone() else { continue };
        let ks = *ks;
        // ... and to every EARLIER list (a holder may take a state back to an older list)
        for k in (first_after..lists.len()).filter(|k| *k != ks) {
            let r = std::panic::catch_unwind(std::panic::AssertUnwindSafe(|| prover::create_or_update_revocation_state(&tails, &reg.def, &lists[k], j.idx, Some(&st), Some(&lists[ks])))).ok().and_then(|r| r.ok());
            ders.push(("inc", k, Some(src), r));
        }
    }
    // one chain: issuer witness at the first list, then list by list
    {
        let mut src = ders.iter().position(|d| d.0 == "issuer" && d.1 == first_after)?;
        for k in (first_after + 1)..lists.len() {
            let Some(st) = ders[src].3.clone() else { break };
            let ks = ders[src].1;
            let r = std::panic::catch_unwind(std::panic::AssertUnwindSafe(|| prover::create_or_update_revocation_state(&tails, &reg.def, &lists[k], j.idx, Some(&st), Some(&lists[ks])))).ok().and_then(|r| r.ok());
            ders.push(("inc", k, Some(src), r));
            src = ders.len() - 1;
        }
    }
    let mut entries: Vec<String> = vec![];
    for (kind, k, src, st) in &ders {
        let ts = world::list_ts(&lists[*k]).unwrap();
        let e = match st {
            Some(st) => {
                let acc = accepted(cx, reg, &cred, st, &lists[*k], ts);
                let c = classes.class_of(st.witness.clone());
                format!("({} {} {} {} {})", kind, k, sx::opt(*src, |x| sx::n(x)), acc, c)
            }
            None => format!("({} {} {} err -1)", kind, k, sx::opt(*src, |x| sx::n(x))),
        };
        entries.push(e);
    }
    Some(format!(
        "W {} {} {} {} {} {})",
        reg.n,
        sx::boolean(j.by_default),
        j.idx,
        s,
        sx::list(lists.iter(), |l| sx::s(&bits_s(l))),
        sx::l(&entries)
    ))
}

fn rand_sets(r: &mut Rng, n: u32, avoid: Option<u32>) -> (Vec<u32>, Vec<u32>) {
    let mut pick = |r: &mut Rng| -> Vec<u32> {
        let k = r.below(3);
        (0..k).map(|_| r.below(n as u64) as u32).filter(|x| Some(*x) != avoid).collect()
    };
    let a = pick(r);
    let b = pick(r);
    (a, b)
}

pub fn run(tier: &str, seed: u64, outdir: &str) {
    let mut out = Out::new(outdir);
    let mut r = Rng::new(seed ^ 0xC10);
    let thorough = tier == "thorough";
    let cd = world::make_cred_def("did:web:r.example/schema/1", "s", "1.0", "did:web:r.example", &["name", "age"], "did:web:r.example/cd/1", "did:web:r.example", true);
    let ls = prover::create_link_secret().unwrap();
    let tails = format!("{}/tails", outdir);
    let regs: Vec<RegSetup> = [4u32, 6].iter().map(|n| world::make_registry(&cd, &format!("did:web:r.example/reg/{}", n), &format!("r{}", n), *n, &tails)).collect();
    let cx = Ctx { cd: &cd, ls: &ls, regs: &regs };
    let mut jobs: Vec<Job> = vec![];
    // systematic: every index, both modes, a fixed history touching index 0, the credential's own index and others
    for by_default in [true, false] {
        for idx in 1..regs[0].n {
            let others: Vec<u32> = (1..regs[0].n).filter(|x| *x != idx).collect();
            for (name, before, after) in [
                ("no-updates", vec![], vec![]),
                ("others-revoked-after", vec![], vec![(vec![], vec![others[0]]), (vec![], vec![others[1]])]),
                ("other-revoked-before", vec![(vec![], vec![others[0]])], vec![(vec![], vec![others[1]])]),
                ("index0-revoked-after", vec![], vec![(vec![], vec![0])]),
                ("index0-revoked-before", vec![(vec![], vec![0])], vec![(vec![], vec![others[0]])]),
                ("own-index-revoked", vec![], vec![(vec![], vec![others[0]]), (vec![], vec![idx]), (vec![], vec![others[1]])]),
                ("own-index-revoked-and-reissued", vec![], vec![(vec![], vec![idx]), (vec![idx], vec![])]),
                ("other-revoked-then-reissued", vec![], vec![(vec![], vec![others[0]]), (vec![others[0]], vec![]), (vec![], vec![])]),
            ] {
                let mut before = before;
                if !by_default {
                    // on demand: the others must be issued before they can be revoked
                    before.insert(0, (others.clone(), vec![]));
                }
                for same_ts in [false, true] {
                    if same_ts && after.is_empty() {
                        continue;
                    }
                    jobs.push(Job { class: format!("systematic:{}{}", name, if same_ts { ":timestamp-kept" } else { "" }), reg: 0, by_default, idx, before: before.clone(), after: after.clone(), same_ts });
                }
            }
        }
    }
    // bulk steps on the larger registry: most of the slots change in ONE update, after an earlier revocation that stays
    for by_default in [true, false] {
        let n = regs[1].n;
        for idx in [1u32, n - 1] {
            let others: Vec<u32> = (1..n).filter(|x| *x != idx).collect();
            let (first, rest) = (others[0], others[1..].to_vec());
            for (name, before, after) in [
                ("bulk-revocation-after-earlier-revocation", vec![(vec![], vec![first])], vec![(vec![], rest.clone())]),
                ("bulk-revocation-after-index0-revoked", vec![(vec![], vec![0])], vec![(vec![], others.clone())]),
                ("bulk-revocation-then-bulk-reissue", vec![(vec![], vec![first])], vec![(vec![], rest.clone()), (rest.clone(), vec![])]),
                ("bulk-revocation-from-clean-list", vec![], vec![(vec![], others.clone())]),
            ] {
                let mut before = before;
                if !by_default {
                    before.insert(0, (others.clone(), vec![]));
                }
                jobs.push(Job { class: format!("systematic:{}", name), reg: 1, by_default, idx, before, after, same_ts: false });
            }
        }
    }
    let nrand = if thorough { 600 } else { 40 };
    for k in 0..nrand {
        let reg = (k % 2) as usize;
        let n = regs[reg].n;
        let by_default = r.chance(1, 2);
        let idx = 1 + r.below(n as u64 - 1) as u32;
        let mut before = vec![];
        if !by_default {
            before.push(((1..n).filter(|x| *x != idx && r.chance(2, 3)).collect(), vec![]));
        }
        for _ in 0..r.below(3) {
            before.push(rand_sets(&mut r, n, Some(idx)));
        }
        let mut after = vec![];
        for _ in 0..(1 + r.below(4)) {
            let avoid = if r.chance(1, 4) { None } else { Some(idx) };
            after.push(rand_sets(&mut r, n, avoid));
        }
        let same_ts = r.chance(1, 4);
        jobs.push(Job { class: if same_ts { "random:timestamp-kept".into() } else { "random".into() }, reg, by_default, idx, before, after, same_ts });
    }
    let lines = crate::par::par_map(&jobs, crate::par::ncpu(), |_, j| run_job(&cx, j));
    for (j, body) in jobs.iter().zip(lines) {
        match body {
            Some(b) => {
                let id = out.next_id();
                out.case(&format!("(C10 {} {}", id, b), &j.class, || json!({"class": j.class, "n": regs[j.reg].n, "by_default": j.by_default, "idx": j.idx, "before": format!("{:?}", j.before), "after": format!("{:?}", j.after)}));
                out.bump(if j.by_default { "mode:by-default" } else { "mode:on-demand" });
            }
            None => out.bump("not-generated"),
        }
    }
    let _ = std::fs::remove_dir_all(&tails);
    out.finish();
}
