//! Shared builders for real library objects (schemas, credential definitions, registries,
//! link secrets, credentials). Everything here goes through the public API of /repo.
#![allow(dead_code)]
use anoncreds::data_types::cred_def::{CredentialDefinition, CredentialDefinitionId};
use anoncreds::data_types::issuer_id::IssuerId;
use anoncreds::data_types::rev_reg_def::{RevocationRegistryDefinition, RevocationRegistryDefinitionId, RevocationRegistryDefinitionPrivate};
use anoncreds::data_types::schema::{AttributeNames, Schema, SchemaId};
use anoncreds::types::{
    CredentialDefinitionConfig, CredentialDefinitionPrivate, CredentialKeyCorrectnessProof, RegistryType, RevocationStatusList, SignatureType,
};
use anoncreds::issuer;

pub struct CredDefSetup {
    pub schema_id: String,
    pub schema: Schema,
    pub cred_def_id: String,
    pub issuer_id: String,
    pub cred_def: CredentialDefinition,
    pub cred_def_priv: CredentialDefinitionPrivate,
    pub kcp: CredentialKeyCorrectnessProof,
}

pub fn make_cred_def(schema_id: &str, schema_name: &str, version: &str, schema_issuer: &str, attrs: &[&str], cred_def_id: &str, issuer_id: &str, revocable: bool) -> CredDefSetup {
    let schema = issuer::create_schema(
        schema_name,
        version,
        IssuerId::new(schema_issuer).unwrap(),
        AttributeNames::from(attrs.iter().map(|s| s.to_string()).collect::<Vec<_>>()),
    )
    .unwrap();
    let (cred_def, cred_def_priv, kcp) = issuer::create_credential_definition(
        SchemaId::new(schema_id).unwrap(),
        &schema,
        IssuerId::new(issuer_id).unwrap(),
        "tag",
        SignatureType::CL,
        CredentialDefinitionConfig { support_revocation: revocable },
    )
    .unwrap();
    CredDefSetup { schema_id: schema_id.into(), schema, cred_def_id: cred_def_id.into(), issuer_id: issuer_id.into(), cred_def, cred_def_priv, kcp }
}

pub struct RegSetup {
    pub rev_reg_id: String,
    pub def: RevocationRegistryDefinition,
    pub def_priv: RevocationRegistryDefinitionPrivate,
    pub n: u32,
    pub tails_dir: String,
}

pub fn make_registry(cd: &CredDefSetup, rev_reg_id: &str, tag: &str, n: u32, tails_dir: &str) -> RegSetup {
    std::fs::create_dir_all(tails_dir).unwrap();
    let mut tw = anoncreds::tails::TailsFileWriter::new(Some(tails_dir.to_string()));
    let (def, def_priv) =
        issuer::create_revocation_registry_def(&cd.cred_def, CredentialDefinitionId::new(cd.cred_def_id.as_str()).unwrap(), tag, RegistryType::CL_ACCUM, n, &mut tw).unwrap();
    RegSetup { rev_reg_id: rev_reg_id.into(), def, def_priv, n, tails_dir: tails_dir.into() }
}

pub fn initial_list(cd: &CredDefSetup, reg: &RegSetup, by_default: bool, ts: Option<u64>) -> RevocationStatusList {
    issuer::create_revocation_status_list(&cd.cred_def, RevocationRegistryDefinitionId::new(reg.rev_reg_id.as_str()).unwrap(), &reg.def, &reg.def_priv, by_default, ts).unwrap()
}

/// Accumulator of a status list / credential registry, through the serde form (the only public view).
pub fn list_accum(list: &RevocationStatusList) -> Option<anoncreds::cl::Accumulator> {
    let v = serde_json::to_value(list).unwrap();
    v.get("currentAccumulator").and_then(|a| serde_json::from_value(a.clone()).ok())
}
pub fn list_bits(list: &RevocationStatusList) -> Vec<bool> {
    let v = serde_json::to_value(list).unwrap();
    v["revocationList"].as_array().unwrap().iter().map(|b| b.as_u64().unwrap() == 1).collect()
}
pub fn list_ts(list: &RevocationStatusList) -> Option<u64> {
    serde_json::to_value(list).unwrap().get("timestamp").and_then(|t| t.as_u64())
}

/// Equality classes of group elements by the crate's own `==`.
pub struct Classes<T: PartialEq> {
    pub reps: Vec<T>,
}
impl<T: PartialEq> Classes<T> {
    pub fn new() -> Self {
        Classes { reps: vec![] }
    }
    pub fn class_of(&mut self, x: T) -> usize {
        for (i, r) in self.reps.iter().enumerate() {
            if *r == x {
                return i;
            }
        }
        self.reps.push(x);
        self.reps.len() - 1
    }
}
