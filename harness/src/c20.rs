//! C20: identifier grammar, schema validation, credential-request validation, issuer outputs.
use crate::out::Out;
use crate::rng::Rng;
use crate::sx;
use anoncreds::data_types::cred_def::CredentialDefinitionId;
use anoncreds::data_types::issuer_id::IssuerId;
use anoncreds::data_types::rev_reg_def::RevocationRegistryDefinitionId;
use anoncreds::data_types::schema::{AttributeNames, Schema, SchemaId};
use anoncreds::types::{CredentialDefinitionConfig, CredentialRequest, RegistryType, SignatureType};
use anoncreds::verif::Validatable;
use anoncreds::{issuer, prover};
use serde_json::{json, Value};
use std::collections::BTreeSet;

const B58: &str = "123456789ABCDEFGHJKLMNPQRSTUVWXYZabcdefghijkmnopqrstuvwxyz";
const NASTY: [&str; 22] = [":", "\n", "0", "O", "I", "l", " ", "é", ".", "+", "-", "/", "a", "Z", "1", "_", "\u{0}", "\r", "２", "😀", "9", ";"];
const KINDS: [&str; 4] = ["issuer", "schema", "creddef", "revreg"];

macro_rules! id_case {
    ($t:ty, $s:expr) => {{
        let s: &str = $s;
        let new_ok = <$t>::new(s).is_ok();
        let u = <$t>::new_unchecked(s);
        let val_ok = u.validate().is_ok();
        let try_ok = <$t>::try_from(s).is_ok();
        let try2_ok = <$t>::try_from(s.to_string()).is_ok();
        let flags = [u.is_uri(), u.is_legacy_did_identifier(), u.is_legacy_schema_identifier(), u.is_legacy_cred_def_identifier(), u.is_legacy_rev_reg_def_identifier()];
        ([new_ok, val_ok, try_ok, try2_ok], flags)
    }};
}

fn emit_id(out: &mut Out, class: &str, kind: &str, s: &str) {
    let (outs, flags) = match kind {
        "issuer" => id_case!(IssuerId, s),
        "schema" => id_case!(SchemaId, s),
        "creddef" => id_case!(CredentialDefinitionId, s),
        _ => id_case!(RevocationRegistryDefinitionId, s),
    };
    let id = out.next_id();
    let line = format!(
        "(C20 {} I {} {} {} {})",
        id,
        kind,
        sx::s(s),
        sx::list(outs.iter(), |b| sx::boolean(*b)),
        sx::list(flags.iter(), |b| sx::boolean(*b))
    );
    let (k, st, o) = (kind.to_string(), s.to_string(), outs[0]);
    out.case(&line, class, || json!({"kind": "identifier", "type": k, "string": st, "impl_accepts": o}));
}

fn did(r: &mut Rng, len: usize, alpha: &str) -> String {
    let a: Vec<char> = alpha.chars().collect();
    (0..len).map(|_| *r.pick(&a)).collect()
}

fn word(r: &mut Rng) -> String {
    let opts = ["gvt", "example", "a", "name with space", "n.1", "é", "x-y_z", "1", "", "a\nb"];
    r.pick(&opts).to_string()
}
fn version(r: &mut Rng) -> String {
    let opts = ["1.0", "1", "0.0.1", ".", "1..2", "", "1.a", "10.20.30", "1.0 "];
    r.pick(&opts).to_string()
}
fn seqno(r: &mut Rng) -> String {
    let opts = ["1", "98153", "12345678901234567890123", "0", "01", "", "9a", "-1", "10"];
    r.pick(&opts).to_string()
}
fn tag(r: &mut Rng) -> String {
    let opts = ["default", "tag", "", "TAG1", "t t", "é", "a\nb"];
    r.pick(&opts).to_string()
}

/// a string drawn FROM the grammar of `kind` (mostly valid), with occasional off-grammar fields
fn from_grammar(r: &mut Rng, kind: &str) -> String {
    let dl = *r.pick(&[21usize, 22, 22, 21, 20, 23]);
    let d = did(r, dl, B58);
    let alnum = "0123456789ABCDEFGHIJKLMNOPQRSTUVWXYZabcdefghijklmnopqrstuvwxyz";
    let schema_ref = |r: &mut Rng| -> String {
        if r.chance(1, 2) {
            seqno(r)
        } else {
            let l = *r.pick(&[21usize, 22, 20, 23]);
            let al = if r.chance(1, 2) { alnum } else { B58 };
            format!("{}:2:{}:{}", did(r, l, al), word(r), version(r))
        }
    };
    match kind {
        "issuer" => d,
        "schema" => format!("{}:2:{}:{}", d, word(r), version(r)),
        "creddef" => format!("{}:3:CL:{}:{}", d, schema_ref(r), tag(r)),
        _ => {
            let l2 = *r.pick(&[21usize, 22, 20]);
            format!("{}:4:{}:3:CL:{}:{}:CL_ACCUM:{}", d, did(r, l2, B58), schema_ref(r), tag(r), tag(r))
        }
    }
}

fn edit(r: &mut Rng, s: &str) -> String {
    let chars: Vec<char> = s.chars().collect();
    let mut c = chars.clone();
    let n = c.len();
    match r.below(7) {
        0 if n > 0 => {
            let i = r.below(n as u64) as usize;
            let rep: Vec<char> = r.pick(&NASTY).chars().collect();
            c.splice(i..i + 1, rep);
        }
        1 if n > 0 => {
            c.remove(r.below(n as u64) as usize);
        }
        2 => {
            let i = r.below(n as u64 + 1) as usize;
            let ins: Vec<char> = r.pick(&NASTY).chars().collect();
            c.splice(i..i, ins);
        }
        3 => {
            // drop or duplicate a ':'-field
            let mut f: Vec<&str> = s.split(':').collect();
            let i = r.below(f.len() as u64) as usize;
            if r.chance(1, 2) && f.len() > 1 {
                f.remove(i);
            } else {
                let x = f[i];
                f.insert(i, x);
            }
            return f.join(":");
        }
        4 => {
            // swap type marker / literal
            return s.replacen(":2:", ":3:", 1).replacen(":CL:", ":cl:", (r.below(2)) as usize).replacen("CL_ACCUM", "CL_ACCUM2", r.below(2) as usize);
        }
        5 => c.push(':'),
        _ => c.insert(0, *r.pick(&['a', ':', '1', ' '])),
    }
    c.into_iter().collect()
}

fn uri_pool() -> Vec<String> {
    let mut v: Vec<String> = ["a:b", "a:", ":b", "", "a", "mock:uri", "did:sov:NcYxiDXkpYi6ov5FcYDi1e", "1a:b", "a1+-.:x", "a_b:x", "a b:x", "a:\n", "a:b\nc", "a:\nb", "é:x", "aé:x", "a:é", "A:😀", "a::", "a:::b", "http://x/y?z#w", "a:b:c:d", "a: ", "Z.:.", "+a:b", "-:b", "a\n:b", "a:b\n", "\na:b", "a:\r"]
        .iter()
        .map(|s| s.to_string())
        .collect();
    // every ASCII byte as first char, as scheme char, as the only rest char
    for b in 0u8..128 {
        let c = b as char;
        v.push(format!("{}x:y", c));
        v.push(format!("x{}:y", c));
        v.push(format!("x:{}", c));
    }
    v
}

pub fn run(tier: &str, seed: u64, outdir: &str) {
    let mut out = Out::new(outdir);
    let mut r = Rng::new(seed ^ 0xC20);
    let scale: u64 = if tier == "thorough" { 40 } else { 1 };

    // --- identifiers ---
    for kind in KINDS {
        for s in uri_pool() {
            emit_id(&mut out, "id:uri-pool", kind, &s);
        }
        // the suite's own examples and boundary lengths
        for s in [
            "DXoTtQJNtXtiwWaZAK3rB1", "DXoTtQJNtXtiwWaZAK3rB", "DXoTtQJNtXtiwWaZAK3r", "DXoTtQJNtXtiwWaZAK3rB12",
            "DXoTtQJNtXtiwWaZAK3rB1:2:example:1.0", "DXoTtQJNtXtiwWaZAK3rB1:3:CL:98153:default", "DXoTtQJNtXtiwWaZAK3rB1:3:CL:98153:",
            "DXoTtQJNtXtiwWaZAK3rB1:3:CL:98153", "DXoTtQJNtXtiwWaZAK3rB1:3:CL:DXoTtQJNtXtiwWaZAK3rB1:2:example:1.0:default",
            "DXoTtQJNtXtiwWaZAK3rB1:4:DXoTtQJNtXtiwWaZAK3rB1:3:CL:288602:example:CL_ACCUM:default",
            "DXoTtQJNtXtiwWaZAK3rB1:4:DXoTtQJNtXtiwWaZAK3rB1:3:CL:288602:example:CL_ACCUM:",
            "DXoTtQJNtXtiwWaZAK3rB1:4:DXoTtQJNtXtiwWaZAK3rB1:3:CL:288602::CL_ACCUM:default",
            "DXoTtQJNtXtiwWaZAK3rB1:4:DXoTtQJNtXtiwWaZAK3rB1:3:CL:DXoTtQJNtXtiwWaZAK3rB1:2:example:1.0:tag:CL_ACCUM:default",
            "2XoTtQJNtXtiwWaZAK3rB1:2:example:1.0", "0XoTtQJNtXtiwWaZAK3rB1", "OXoTtQJNtXtiwWaZAK3rB1", "IXoTtQJNtXtiwWaZAK3rB1", "lXoTtQJNtXtiwWaZAK3rB1",
        ] {
            emit_id(&mut out, "id:examples", kind, s);
        }
        // forbidden base58 letters and non-b58 chars at every position of a 22-char DID
        let base = "DXoTtQJNtXtiwWaZAK3rB1";
        for pos in 0..22 {
            for bad in ["0", "O", "I", "l", ":", "é", "\n", "z"] {
                let mut c: Vec<String> = base.chars().map(|x| x.to_string()).collect();
                c[pos] = bad.to_string();
                let d = c.concat();
                let s = match kind {
                    "issuer" => d,
                    "schema" => format!("{}:2:n:1", d),
                    "creddef" => format!("{}:3:CL:1:t", d),
                    _ => format!("{}:4:{}:3:CL:1:t:CL_ACCUM:t", base, d),
                };
                emit_id(&mut out, "id:b58-position", kind, &s);
            }
        }
        for _ in 0..(2500 * scale) {
            // strings of every kind's grammar are fed to every kind's validator
            let g = *r.pick(&KINDS);
            let s = from_grammar(&mut r, g);
            emit_id(&mut out, "id:from-grammar", kind, &s);
            let mut e = s.clone();
            for _ in 0..(1 + r.below(2)) {
                e = edit(&mut r, &e);
            }
            emit_id(&mut out, "id:edited", kind, &e);
        }
    }

    // --- schemas ---
    let issuers = ["did:web:xyz", "DXoTtQJNtXtiwWaZAK3rB1", "not an id", "", "DXoTtQJNtXtiwWaZAK3r"];
    let schema_case = |out: &mut Out, class: &str, issuer: &str, attrs: Vec<String>| {
        let created = issuer::create_schema("n", "1.0", IssuerId::new_unchecked(issuer), AttributeNames(attrs.clone())).is_ok();
        let sc = Schema { name: "n".into(), version: "1.0".into(), issuer_id: IssuerId::new_unchecked(issuer), attr_names: AttributeNames(attrs.clone()) };
        let val = sc.validate().is_ok();
        let id = out.next_id();
        let line = format!("(C20 {} S {} {} {} {})", id, sx::s(issuer), sx::list(attrs.iter(), |a| sx::s(a)), sx::boolean(created), sx::boolean(val));
        let (i, n) = (issuer.to_string(), attrs.len());
        out.case(&line, class, || json!({"kind": "schema", "issuer": i, "n_attrs": n, "impl_accepts": created}));
    };
    for issuer in issuers {
        for n in [0usize, 1, 2, 124, 125, 126, 127, 200] {
            let attrs: Vec<String> = (0..n).map(|i| format!("a{}", i)).collect();
            schema_case(&mut out, "schema:size", issuer, attrs.clone());
            if n >= 2 {
                for (i, j) in [(0, 1), (0, n - 1), (n - 2, n - 1), (n / 2, (n / 2 + 1) % n)] {
                    let mut d = attrs.clone();
                    d[j] = d[i].clone();
                    schema_case(&mut out, "schema:duplicate", issuer, d);
                }
                // near-duplicates are distinct: case and spaces
                let mut d = attrs.clone();
                d[1] = "A0".into();
                schema_case(&mut out, "schema:near-duplicate", issuer, d.clone());
                d[1] = "a 0".into();
                schema_case(&mut out, "schema:near-duplicate", issuer, d);
            }
        }
    }
    for _ in 0..(300 * scale) {
        let n = r.below(8) as usize;
        let pool = ["a", "b", "A", "a ", "", "é", "name", "age"];
        let attrs: Vec<String> = (0..n).map(|_| r.pick(&pool).to_string()).collect();
        let issuer = *r.pick(&issuers);
        schema_case(&mut out, "schema:random", issuer, attrs);
    }

    // --- credential requests + issuer outputs: one real setup ---
    let issuer_id = "did:web:issuer.example";
    let schema_id = "DXoTtQJNtXtiwWaZAK3rB1:2:example:1.0";
    let cred_def_id = "DXoTtQJNtXtiwWaZAK3rB1:3:CL:98153:default";
    let rev_reg_id = "DXoTtQJNtXtiwWaZAK3rB1:4:DXoTtQJNtXtiwWaZAK3rB1:3:CL:98153:default:CL_ACCUM:tag1";
    let schema = issuer::create_schema("example", "1.0", IssuerId::new(issuer_id).unwrap(), AttributeNames::from(vec!["name".to_string(), "age".to_string()])).unwrap();
    let (cred_def, cred_def_priv, kcp) = issuer::create_credential_definition(
        SchemaId::new(schema_id).unwrap(),
        &schema,
        IssuerId::new(issuer_id).unwrap(),
        "default",
        SignatureType::CL,
        CredentialDefinitionConfig { support_revocation: true },
    )
    .unwrap();
    let tails_dir = format!("{}/tails", outdir);
    std::fs::create_dir_all(&tails_dir).unwrap();
    let mut tw = anoncreds::tails::TailsFileWriter::new(Some(tails_dir.clone()));
    let (rev_reg_def, rev_reg_priv) =
        issuer::create_revocation_registry_def(&cred_def, CredentialDefinitionId::new(cred_def_id).unwrap(), "tag1", RegistryType::CL_ACCUM, 5, &mut tw).unwrap();
    let list = issuer::create_revocation_status_list(&cred_def, RevocationRegistryDefinitionId::new(rev_reg_id).unwrap(), &rev_reg_def, &rev_reg_priv, true, Some(10)).unwrap();
    let offer = issuer::create_credential_offer(SchemaId::new(schema_id).unwrap(), CredentialDefinitionId::new(cred_def_id).unwrap(), &kcp).unwrap();
    let ls = prover::create_link_secret().unwrap();
    let (req, _meta) = prover::create_credential_request(Some("entropy"), None, &cred_def, &ls, "ls", &offer).unwrap();
    let mut values = anoncreds::types::MakeCredentialValues::default();
    values.add_raw("name", "Alice").unwrap();
    values.add_raw("age", "30").unwrap();
    let cred = issuer::create_credential(
        &cred_def,
        &cred_def_priv,
        &offer,
        &req,
        values.into(),
        Some(anoncreds::types::CredentialRevocationConfig { reg_def: &rev_reg_def, reg_def_private: &rev_reg_priv, status_list: &list, registry_idx: 1 }),
    )
    .unwrap();
    let list2 = issuer::update_revocation_status_list(&cred_def, &rev_reg_def, &rev_reg_priv, &list, None, Some(BTreeSet::from([1u32])), Some(20)).unwrap();
    let list3 = issuer::update_revocation_status_list_timestamp_only(30, &list2);

    // ids found in returned objects, by JSON key
    fn collect(v: &Value, acc: &mut Vec<(String, String)>) {
        match v {
            Value::Object(m) => {
                for (k, x) in m {
                    let kind = match k.as_str() {
                        "issuerId" | "issuer_id" | "issuer" => Some("issuer"),
                        "schemaId" | "schema_id" => Some("schema"),
                        "credDefId" | "cred_def_id" => Some("creddef"),
                        "revRegDefId" | "rev_reg_def_id" | "rev_reg_id" => Some("revreg"),
                        _ => None,
                    };
                    if let (Some(kind), Value::String(s)) = (kind, x) {
                        acc.push((kind.to_string(), s.clone()));
                    }
                    collect(x, acc);
                }
            }
            Value::Array(a) => a.iter().for_each(|x| collect(x, acc)),
            _ => {}
        }
    }
    let ins = vec![("issuer", issuer_id), ("schema", schema_id), ("creddef", cred_def_id), ("revreg", rev_reg_id)];
    let objs: Vec<(&str, Value)> = vec![
        ("schema", serde_json::to_value(&schema).unwrap()),
        ("cred_def", serde_json::to_value(&cred_def).unwrap()),
        ("rev_reg_def", serde_json::to_value(&rev_reg_def).unwrap()),
        ("status_list", serde_json::to_value(&list).unwrap()),
        ("status_list_updated", serde_json::to_value(&list2).unwrap()),
        ("status_list_ts", serde_json::to_value(&list3).unwrap()),
        ("offer", serde_json::to_value(&offer).unwrap()),
        ("request", serde_json::to_value(&req).unwrap()),
        ("credential", serde_json::to_value(&cred).unwrap()),
    ];
    for (name, v) in &objs {
        let mut found = vec![];
        collect(v, &mut found);
        let id = out.next_id();
        let line = format!(
            "(C20 {} O {} {})",
            id,
            sx::list(ins.iter(), |(k, s)| format!("({} {})", k, sx::s(s))),
            sx::list(found.iter(), |(k, s)| format!("({} {})", k, sx::s(s)))
        );
        let (nm, f) = (name.to_string(), found.clone());
        out.case(&line, "issuer-output", || json!({"kind": "issuer-output", "object": nm, "ids": f}));
    }

    // the issuer API called with identifier objects that were never validated (from deserialisation or new_unchecked):
    // whatever it returns carries identifiers that pass validation (refusing the call is fine)
    {

        let bads = ["not a registry id", "", "DXoTtQJNtXtiwWaZAK3rB1:4:DXoTtQJNtXtiwWaZAK3rB1:3:CL:98153::CL_ACCUM:tag", "a b:c", "DXoTtQJNtXtiwWaZAK3rB1:2:example"];
        for bad in bads {
            let mut results: Vec<(&str, Option<Value>)> = vec![];
            let r = std::panic::catch_unwind(std::panic::AssertUnwindSafe(|| {
                issuer::create_revocation_status_list(&cred_def, RevocationRegistryDefinitionId::new_unchecked(bad), &rev_reg_def, &rev_reg_priv, true, Some(10)).ok().and_then(|x| serde_json::to_value(&x).ok())
            }));
            results.push(("status_list:unchecked-registry-id", r.unwrap_or(None)));
            let r = std::panic::catch_unwind(std::panic::AssertUnwindSafe(|| {
                issuer::create_credential_offer(SchemaId::new_unchecked(bad), CredentialDefinitionId::new_unchecked(bad), &kcp).ok().and_then(|x| serde_json::to_value(&x).ok())
            }));
            results.push(("offer:unchecked-ids", r.unwrap_or(None)));
            let r = std::panic::catch_unwind(std::panic::AssertUnwindSafe(|| {
                issuer::create_schema("n", "1.0", IssuerId::new_unchecked(bad), AttributeNames::from(vec!["a".to_string()])).ok().and_then(|x| serde_json::to_value(&x).ok())
            }));
            results.push(("schema:unchecked-issuer-id", r.unwrap_or(None)));
            let r = std::panic::catch_unwind(std::panic::AssertUnwindSafe(|| {
                issuer::create_credential_definition(SchemaId::new_unchecked(bad), &schema, IssuerId::new_unchecked(bad), "t", SignatureType::CL, CredentialDefinitionConfig { support_revocation: false })
                    .ok().and_then(|x| serde_json::to_value(&x.0).ok())
            }));
            results.push(("cred_def:unchecked-ids", r.unwrap_or(None)));
            let r = std::panic::catch_unwind(std::panic::AssertUnwindSafe(|| {
                let mut tw2 = anoncreds::tails::TailsFileWriter::new(Some(tails_dir.clone()));
                issuer::create_revocation_registry_def(&cred_def, CredentialDefinitionId::new_unchecked(bad), "t2", RegistryType::CL_ACCUM, 2, &mut tw2).ok().and_then(|x| serde_json::to_value(&x.0).ok())
            }));
            results.push(("rev_reg_def:unchecked-cred-def-id", r.unwrap_or(None)));
            for (what, v) in results {
                let Some(v) = v else {
                    out.bump("issuer-output:unchecked-id-refused");
                    continue;
                };
                let mut found = vec![];
                collect(&v, &mut found);
                let id = out.next_id();
                // the "inputs" are the returned ids themselves: the only question is whether each passes validation
                let line = format!("(C20 {} O {} {})", id, sx::list(found.iter(), |(k, s)| format!("({} {})", k, sx::s(s))), sx::list(found.iter(), |(k, s)| format!("({} {})", k, sx::s(s))));
                let (nm, f) = (what.to_string(), found.clone());
                out.case(&line, "issuer-output:unchecked-id-accepted", || json!({"kind": "issuer-output", "call": nm, "ids": f}));
            }
        }
    }
    // credential requests: validate() on documents built from a real request, new() through create_credential_request
    let template = serde_json::to_value(&req).unwrap();
    let cred_def_ids = [
        cred_def_id, "did:web:xyz/cd", "DXoTtQJNtXtiwWaZAK3rB1:3:CL:98153:", "DXoTtQJNtXtiwWaZAK3rB1:3:CL:DXoTtQJNtXtiwWaZAK3rB1:2:example:1.0:default",
        "not valid", "DXoTtQJNtXtiwWaZAK3rB1:3:CL:98153", "DXoTtQJNtXtiwWaZAK3r:3:CL:98153:default", "",
    ];
    let dids = [None, Some("DXoTtQJNtXtiwWaZAK3rB1"), Some("did:sov:abc"), Some("not a did"), Some(""), Some("DXoTtQJNtXtiwWaZAK3r"), Some("a:b\nc")];
    let entropies = [None, Some("entropy"), Some("")];
    for cd in cred_def_ids {
        for d in dids {
            for e in entropies {
                let mut doc = template.clone();
                let m = doc.as_object_mut().unwrap();
                m.remove("entropy");
                m.remove("prover_did");
                if let Some(e) = e {
                    m.insert("entropy".into(), json!(e));
                }
                if let Some(d) = d {
                    m.insert("prover_did".into(), json!(d));
                }
                m.insert("cred_def_id".into(), json!(cd));
                let parsed: Result<CredentialRequest, _> = serde_json::from_value(doc);
                let val_ok = match parsed {
                    Ok(p) => p.validate().is_ok(),
                    Err(_) => {
                        out.bump("req:deser-error");
                        continue;
                    }
                };
                // CredentialRequest::new through the prover API (cred def object is the real one; its id is the offer's)
                // (for ids the offer constructor accepts, an offer naming that id is made from the same key proof)
                let new_ok = if cd == cred_def_id {
                    Some(prover::create_credential_request(e, d, &cred_def, &ls, "ls", &offer).is_ok())
                } else {
                    match CredentialDefinitionId::new(cd).ok().and_then(|cid| issuer::create_credential_offer(SchemaId::new(schema_id).unwrap(), cid, &kcp).ok()) {
                        Some(offer2) => Some(prover::create_credential_request(e, d, &cred_def, &ls, "ls", &offer2).is_ok()),
                        None => None,
                    }
                };
                let id = out.next_id();
                let line = format!(
                    "(C20 {} R {} {} {} {} {})",
                    id,
                    sx::opt(e, |x| sx::s(x)),
                    sx::opt(d, |x| sx::s(x)),
                    sx::s(cd),
                    sx::boolean(val_ok),
                    sx::opt(new_ok, |b| sx::boolean(b))
                );
                let (es, ds, cds) = (e.map(|x| x.to_string()), d.map(|x| x.to_string()), cd.to_string());
                out.case(&line, "cred-request", || json!({"kind": "cred-request", "entropy": es, "prover_did": ds, "cred_def_id": cds, "impl_accepts": val_ok}));
            }
        }
    }
    let _ = std::fs::remove_dir_all(&tails_dir);
    out.finish();
}
