//! avh — correspondence harness: runs the real library (/repo working tree, hooks on) on
//! generated cases and prints, per case, the abstract case for the Coq model together with
//! the implementation's observable outcome.
extern crate anoncreds;

mod c10;
mod c11;
mod c12d;
mod c14;
mod c15;
mod c13;
mod c09;
mod c16;
mod c17;
mod c18;
mod c19;
mod world;
mod vw;
mod vcases;
mod c20;
mod out;
mod par;
mod pcases;
mod rng;
mod sx;

fn main() {
    let args: Vec<String> = std::env::args().collect();
    if args.len() >= 5 && args[1] == "C19-child-fsize" {
        std::panic::set_hook(Box::new(|_| {}));
        c19::child_fsize(&args[2..]);
        return;
    }
    if args.len() >= 5 && args[1] == "C19-child" {
        std::panic::set_hook(Box::new(|_| {}));
        c19::child(&args[2..]);
        return;
    }
    if args.len() >= 4 && args[1] == "C17-child" {
        c17::child(&args[2..]);
        return;
    }
    if args.len() < 5 {
        eprintln!("usage: avh <property> <tier> <seed> <outdir> [extra...]");
        std::process::exit(2);
    }
    let prop = args[1].as_str();
    let tier = args[2].as_str();
    let seed: u64 = args[3].parse().unwrap_or(1);
    let outdir = args[4].as_str();
    // silence panic messages of caught panics (they are outcomes, not noise)
    if std::env::var("AVH_DEBUG_PANIC").is_err() {
        std::panic::set_hook(Box::new(|_| {}));
    }
    match prop {
        "C13" => c13::run(tier, seed, outdir),
        "C16" => c16::run(tier, seed, outdir),
        "C01" | "C02" | "C03" | "C05" | "C06" | "C08" | "C12" => vcases::run(prop, tier, seed, outdir),
        "C04" | "C07" => pcases::run(prop, tier, seed, outdir),
        "C10" => c10::run(tier, seed, outdir),
        "C11" => c11::run(tier, seed, outdir),
        "C15" => c15::run(tier, seed, outdir),
        "C14" => c14::run(tier, seed, outdir),
        "C17" => c17::run(tier, seed, outdir),
        "C18" => c18::run(tier, seed, outdir),
        "C19" => c19::run(tier, seed, outdir),
        "C09" => c09::run(tier, seed, outdir),
        "C20" => c20::run(tier, seed, outdir),
        _ => {
            eprintln!("unknown property {}", prop);
            std::process::exit(2);
        }
    }
}
