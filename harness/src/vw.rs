//! Verification world: real schemas, credential definitions, a revocation registry with a
//! history of status lists, two holders, credentials in both forms — and the ABSTRACTION of
//! requests, presentations and verifier contexts into the case format of Model/VDecode.v.
//! The abstraction is field copying only; the provenance of every sub-proof (which credential,
//! which link secret, which witness) is known here because the harness built the proof.
#![allow(dead_code)]
use crate::sx;
use crate::world::{self, Classes, CredDefSetup, RegSetup};
use anoncreds::data_types::cred_def::{CredentialDefinition, CredentialDefinitionId};
use anoncreds::data_types::credential::Credential;
use anoncreds::data_types::link_secret::LinkSecret;
use anoncreds::data_types::pres_request::{NonRevokedInterval, PresentationRequest};
use anoncreds::data_types::presentation::Presentation;
use anoncreds::data_types::rev_reg_def::{RevocationRegistryDefinition, RevocationRegistryDefinitionId};
use anoncreds::data_types::schema::{Schema, SchemaId};
use anoncreds::data_types::w3c::credential::W3CCredential;
use anoncreds::data_types::w3c::presentation::W3CPresentation;
use anoncreds::types::{CredentialRevocationConfig, CredentialRevocationState, MakeCredentialValues, PresentCredentials, RevocationStatusList};
use anoncreds::{issuer, prover, verifier, w3c};
use serde_json::{json, Value};
use std::collections::{BTreeSet, HashMap};

pub struct Held {
    pub cd: usize,
    pub holder: usize,
    pub values: Vec<(String, String)>, // name as in the schema, raw
    pub legacy: Credential,
    pub w3c: W3CCredential,
    /// the same credential as a holder may store it: a data-integrity proof of another
    /// cryptosuite listed BEFORE the AnonCreds signature proof
    pub w3c_multi: W3CCredential,
    pub rev_idx: Option<u32>,
}

pub struct ListInfo {
    pub ts: u64,
    pub list: RevocationStatusList,
    pub acc_class: usize,
    pub revoked: BTreeSet<u32>,
}

pub struct World {
    pub cds: Vec<CredDefSetup>,
    pub revocable: Vec<bool>,
    pub reg: RegSetup, // registry of cds[1]
    pub lists: Vec<ListInfo>,
    pub holders: Vec<LinkSecret>,
    pub creds: Vec<Held>,
    pub tails_path: String,
    pub states: HashMap<(usize, usize), CredentialRevocationState>, // (cred index, list index), derived from scratch
    /// the same states derived incrementally from the state for the previous list
    pub states_inc: HashMap<(usize, usize), CredentialRevocationState>,
}

pub const SCHEMA_IDS: [&str; 3] = ["NcYxiDXkpYi6ov5FcYDi1e:2:gvt:1.0", "did:web:emp.example/schema/1", "NcYxiDXkpYi6ov5FcYDi1e:2:gvt2:2.0"];
pub const CD_IDS: [&str; 4] = ["NcYxiDXkpYi6ov5FcYDi1e:3:CL:1:tag", "did:web:issuer1.example/cd/1", "NcYxiDXkpYi6ov5FcYDi1e:3:CL:2:emp", "did:web:issuer2.example/cd/3"];
pub const REG_ID: &str = "did:web:issuer1.example/reg/1";

pub fn issue(w_cds: &[CredDefSetup], cd: usize, ls: &LinkSecret, values: &[(&str, &str)], rev: Option<(&RegSetup, &RevocationStatusList, u32)>) -> Credential {
    let c = &w_cds[cd];
    let offer = issuer::create_credential_offer(c.schema_id.as_str().try_into().unwrap(), c.cred_def_id.as_str().try_into().unwrap(), &c.kcp).unwrap();
    let (req, meta) = prover::create_credential_request(Some("entropy"), None, &c.cred_def, ls, "ls", &offer).unwrap();
    let mut mv = MakeCredentialValues::default();
    for (k, v) in values {
        mv.add_raw(*k, *v).unwrap();
    }
    let mut cred = issuer::create_credential(
        &c.cred_def,
        &c.cred_def_priv,
        &offer,
        &req,
        mv.into(),
        rev.map(|(reg, list, idx)| CredentialRevocationConfig { reg_def: &reg.def, reg_def_private: &reg.def_priv, status_list: list, registry_idx: idx }),
    )
    .unwrap();
    prover::process_credential(&mut cred, &meta, ls, &c.cred_def, rev.map(|(reg, _, _)| &reg.def)).unwrap();
    cred
}

impl World {
    pub fn build(outdir: &str) -> World {
        let specs: Vec<(usize, &str, &str, &str, Vec<&str>, &str, bool)> = vec![
            (0, "gvt", "1.0", "NcYxiDXkpYi6ov5FcYDi1e", vec!["name", "age", "sex", "height"], "NcYxiDXkpYi6ov5FcYDi1e", false),
            (0, "gvt", "1.0", "NcYxiDXkpYi6ov5FcYDi1e", vec!["name", "age", "sex", "height"], "did:web:issuer1.example", true),
            (1, "emp", "1", "did:web:emp.example", vec!["Name", "Zip Code", "Salary", "age"], "NcYxiDXkpYi6ov5FcYDi1e", false),
            (2, "gvt2", "2.0", "CsQY9MGeD3CQP4EyuVFo5m", vec!["name", "age", "sex", "height"], "did:web:issuer2.example", false),
        ];
        let cds: Vec<CredDefSetup> = crate::par::par_map(&specs, 4, |i, s| world::make_cred_def(SCHEMA_IDS[s.0], s.1, s.2, s.3, &s.4, CD_IDS[i], s.5, s.6));
        let revocable = specs.iter().map(|s| s.6).collect();
        let tails_dir = format!("{}/tails", outdir);
        let reg = world::make_registry(&cds[1], REG_ID, "r1", 8, &tails_dir);
        let tails_path = reg.def.value.tails_location.clone();
        let holders = vec![prover::create_link_secret().unwrap(), prover::create_link_secret().unwrap()];
        let l0 = world::initial_list(&cds[1], &reg, true, Some(100));
        let alex = [("name", "Alex"), ("age", "28"), ("sex", "male"), ("height", "175")];
        let bob = [("name", "Bob"), ("age", "17"), ("sex", "male"), ("height", "160")];
        let emp = [("Name", "Alex Smith"), ("Zip Code", "007"), ("Salary", "2400"), ("age", "28")];
        let plan: Vec<(usize, usize, Vec<(&str, &str)>, Option<u32>)> = vec![
            (0, 0, alex.to_vec(), None),
            (1, 0, alex.to_vec(), Some(1)),
            (2, 0, emp.to_vec(), None),
            (0, 1, bob.to_vec(), None),
            (1, 1, bob.to_vec(), Some(2)),
            (3, 0, alex.to_vec(), None),
            (0, 0, vec![("name", "Alexa"), ("age", "31"), ("sex", "female"), ("height", "168")], None),
            (0, 0, vec![("name", "Zoë ✓"), ("age", "-5"), ("sex", ""), ("height", "-2147483648")], None),
            // 8: a second revocable credential of holder 0 from the same definition and registry as credential 1
            (1, 0, vec![("name", "Alexa"), ("age", "31"), ("sex", "female"), ("height", "168")], Some(3)),
        ];
        let creds: Vec<Held> = plan
            .iter()
            .map(|(cd, h, vals, idx)| {
                let legacy = issue(&cds, *cd, &holders[*h], vals, idx.map(|i| (&reg, &l0, i)));
                let w3c = w3c::credential_conversion::credential_to_w3c(&legacy, &cds[*cd].issuer_id.as_str().try_into().unwrap(), None).unwrap();
                let mut doc = serde_json::to_value(&w3c).unwrap();
                let own = match doc["proof"].take() {
                    Value::Array(mut a) => a.remove(0),
                    x => x,
                };
                let other = json!({"type": "DataIntegrityProof", "cryptosuite": "eddsa-rdfc-2022", "created": "2024-01-01T00:00:00Z",
                    "verificationMethod": "did:web:issuer.example#key-1", "proofPurpose": "assertionMethod",
                    "proofValue": "z2YwC8z3ap7yx1nZYCg4L3j3ApHsF8kgPdSb5xoS1VR7vPG3F561B52hYnQF9iseabecm3ijx4K1FBTQsCZahKZme"});
                doc["proof"] = json!([other, own]);
                let w3c_multi: W3CCredential = serde_json::from_value(doc).unwrap();
                Held { cd: *cd, holder: *h, values: vals.iter().map(|(k, v)| (k.to_string(), v.to_string())).collect(), legacy, w3c, w3c_multi, rev_idx: *idx }
            })
            .collect();
        // history of the registry: t=100 all valid, t=200 index 2 revoked, t=300 index 1 revoked too
        let l1 = issuer::update_revocation_status_list(&cds[1].cred_def, &reg.def, &reg.def_priv, &l0, None, Some(BTreeSet::from([2u32])), Some(200)).unwrap();
        let l2 = issuer::update_revocation_status_list(&cds[1].cred_def, &reg.def, &reg.def_priv, &l1, None, Some(BTreeSet::from([1u32])), Some(300)).unwrap();
        let mut classes: Classes<anoncreds::cl::Accumulator> = Classes::new();
        // a fourth list stamped 0 (the state of t=100 published again at the epoch): 0 is a timestamp like any other
        let l3 = issuer::update_revocation_status_list_timestamp_only(0, &l0);
        let lists: Vec<ListInfo> = vec![(100u64, l0, vec![]), (200, l1, vec![2u32]), (300, l2, vec![1, 2]), (0, l3, vec![])]
            .into_iter()
            .map(|(ts, list, rv)| {
                let acc_class = classes.class_of(world::list_accum(&list).unwrap());
                ListInfo { ts, list, acc_class, revoked: rv.into_iter().collect() }
            })
            .collect();
        let mut states = HashMap::new();
        for (ci, c) in creds.iter().enumerate() {
            if let Some(idx) = c.rev_idx {
                for (li, l) in lists.iter().enumerate() {
                    let st = prover::create_or_update_revocation_state(&tails_path, &reg.def, &l.list, idx, None, None).unwrap();
                    states.insert((ci, li), st);
                }
            }
        }
        let mut states_inc = HashMap::new();
        for (ci, c) in creds.iter().enumerate() {
            if let Some(idx) = c.rev_idx {
                for li in 1..lists.len() {
                    let prev: Option<&CredentialRevocationState> = states_inc.get(&(ci, li - 1)).or_else(|| states.get(&(ci, li - 1)));
                    if let Some(prev) = prev {
                        let r = std::panic::catch_unwind(std::panic::AssertUnwindSafe(|| {
                            prover::create_or_update_revocation_state(&tails_path, &reg.def, &lists[li].list, idx, Some(prev), Some(&lists[li - 1].list))
                        }));
                        if let Ok(Ok(st)) = r {
                            states_inc.insert((ci, li), st);
                        }
                    }
                }
            }
        }
        World { cds, revocable, reg, lists, holders, creds, tails_path, states, states_inc }
    }

    pub fn schemas(&self) -> HashMap<SchemaId, Schema> {
        let mut m = HashMap::new();
        for c in &self.cds {
            m.insert(SchemaId::new_unchecked(c.schema_id.clone()), c.schema.clone());
        }
        m
    }
    pub fn cred_defs(&self) -> HashMap<CredentialDefinitionId, CredentialDefinition> {
        let mut m = HashMap::new();
        for c in &self.cds {
            m.insert(CredentialDefinitionId::new_unchecked(c.cred_def_id.clone()), c.cred_def.try_clone().unwrap());
        }
        m
    }
    pub fn reg_defs(&self) -> HashMap<RevocationRegistryDefinitionId, RevocationRegistryDefinition> {
        let mut m = HashMap::new();
        m.insert(RevocationRegistryDefinitionId::new_unchecked(REG_ID), self.reg.def.clone());
        m
    }
}

// ------------------------------------------------------------------ verifier context
#[derive(Clone, Debug)]
pub struct VCtx {
    /// (id under which it is supplied, index of the schema object in the world)
    pub schemas: Vec<(String, usize)>,
    /// (id under which it is supplied, index of the cred def object in the world)
    pub cred_defs: Vec<(String, usize)>,
    pub reg_defs: Option<Vec<String>>, // ids under which the ONE registry definition is supplied
    /// status lists supplied: (index into world.lists, id stripped?, timestamp override)
    pub lists: Option<Vec<usize>>,
    pub ovr: Option<Vec<(String, Vec<(u64, u64)>)>>,
}

impl VCtx {
    pub fn full(w: &World) -> VCtx {
        VCtx {
            schemas: (0..w.cds.len()).map(|i| (w.cds[i].schema_id.clone(), i)).collect(),
            cred_defs: (0..w.cds.len()).map(|i| (w.cds[i].cred_def_id.clone(), i)).collect(),
            reg_defs: Some(vec![REG_ID.to_string()]),
            lists: Some((0..w.lists.len()).collect()),
            ovr: None,
        }
    }
    pub fn sexp(&self, w: &World) -> String {
        let mut seen = std::collections::BTreeMap::new();
        for (id, i) in &self.schemas {
            let s = &w.cds[*i].schema;
            seen.insert(id.clone(), format!("({} ({} {} {} {}))", sx::s(id), sx::s(&s.name), sx::s(&s.version), sx::s(&s.issuer_id.0), sx::list(s.attr_names.0.iter(), |a| sx::s(a))));
        }
        let schemas = sx::l(&seen.values().cloned().collect::<Vec<_>>());
        let mut seen = std::collections::BTreeMap::new();
        for (id, i) in &self.cred_defs {
            let c = &w.cds[*i];
            seen.insert(id.clone(), format!("({} ({} {} {} {}))", sx::s(id), sx::s(&c.schema_id), sx::s(&c.issuer_id), i, if w.revocable[*i] { format!("({})", i) } else { "()".into() }));
        }
        let cds = sx::l(&seen.values().cloned().collect::<Vec<_>>());
        let regdefs = match &self.reg_defs {
            None => "()".to_string(),
            Some(ids) => format!("({})", sx::list(ids.iter(), |id| format!("({} 1)", sx::s(id)))),
        };
        let lists = match &self.lists {
            None => "()".to_string(),
            Some(ls) => format!("({})", sx::list(ls.iter(), |li| format!("(({}) ({}) ({}))", sx::s(REG_ID), w.lists[*li].ts, w.lists[*li].acc_class))),
        };
        let ovr = match &self.ovr {
            None => "()".to_string(),
            Some(o) => format!("({})", sx::list(o.iter(), |(id, m)| format!("({} {})", sx::s(id), sx::list(m.iter(), |(a, b)| format!("({} {})", a, b))))),
        };
        format!("({} {} {} {} {})", schemas, cds, regdefs, lists, ovr)
    }
}

pub struct BuiltCtx {
    pub schemas: HashMap<SchemaId, Schema>,
    pub cred_defs: HashMap<CredentialDefinitionId, CredentialDefinition>,
    pub reg_defs: Option<HashMap<RevocationRegistryDefinitionId, RevocationRegistryDefinition>>,
    pub lists: Option<Vec<RevocationStatusList>>,
    pub ovr: Option<HashMap<RevocationRegistryDefinitionId, HashMap<u64, u64>>>,
}

pub fn build_ctx(w: &World, c: &VCtx) -> BuiltCtx {
    BuiltCtx {
        schemas: c.schemas.iter().map(|(id, i)| (SchemaId::new_unchecked(id.clone()), w.cds[*i].schema.clone())).collect(),
        cred_defs: c.cred_defs.iter().map(|(id, i)| (CredentialDefinitionId::new_unchecked(id.clone()), w.cds[*i].cred_def.try_clone().unwrap())).collect(),
        reg_defs: c.reg_defs.as_ref().map(|ids| ids.iter().map(|id| (RevocationRegistryDefinitionId::new_unchecked(id.clone()), w.reg.def.clone())).collect()),
        lists: c.lists.as_ref().map(|ls| ls.iter().map(|li| w.lists[*li].list.clone()).collect()),
        ovr: c.ovr.as_ref().map(|o| o.iter().map(|(id, m)| (RevocationRegistryDefinitionId::new_unchecked(id.clone()), m.iter().cloned().collect())).collect()),
    }
}

// ------------------------------------------------------------------ requests
pub fn interval_json(i: &(Option<u64>, Option<u64>)) -> Value {
    let mut m = serde_json::Map::new();
    if let Some(f) = i.0 {
        m.insert("from".into(), json!(f));
    }
    if let Some(t) = i.1 {
        m.insert("to".into(), json!(t));
    }
    Value::Object(m)
}

fn interval_sexp(i: &Option<NonRevokedInterval>) -> String {
    match i {
        None => "()".into(),
        Some(iv) => format!("(({} {}))", sx::opt(iv.from, |x| sx::n(x)), sx::opt(iv.to, |x| sx::n(x))),
    }
}

/// The abstract request read off the JSON DOCUMENT (names, predicate types and thresholds, intervals at the three
/// places); only the restrictions are taken from the parsed object (their parser is C16's subject). A request whose
/// own deserialiser changes a threshold or drops an interval is then verified against what the document says.
pub fn request_sexp_doc(doc: &Value, r: &PresentationRequest) -> String {
    let p = r.value();
    let iv = |v: &Value| -> String {
        match v.as_object() {
            None => "()".into(),
            Some(o) => format!("(({} {}))", sx::opt(o.get("from").and_then(|x| x.as_u64()), |x| sx::n(x)), sx::opt(o.get("to").and_then(|x| x.as_u64()), |x| sx::n(x))),
        }
    };
    let empty = serde_json::Map::new();
    let mut attrs: Vec<(String, String)> = doc["requested_attributes"].as_object().unwrap_or(&empty).iter().map(|(k, a)| {
        let names: Option<Vec<String>> = a["names"].as_array().map(|l| l.iter().filter_map(|x| x.as_str().map(|s| s.to_string())).collect());
        (k.clone(), format!("({} ({} {} {} {}))", sx::s(k),
            sx::opt(a["name"].as_str(), |n| sx::s(n)),
            sx::opt(names.as_ref(), |ns| sx::list(ns.iter(), |n| sx::s(n))),
            sx::opt(p.requested_attributes.get(k).and_then(|t| t.restrictions.as_ref()), |q| sx::query(q)),
            iv(&a["non_revoked"])))
    }).collect();
    attrs.sort();
    let mut preds: Vec<(String, String)> = doc["requested_predicates"].as_object().unwrap_or(&empty).iter().map(|(k, a)| {
        let pt = match a["p_type"].as_str().unwrap_or("") { ">=" => "ge", "<=" => "le", ">" => "gt", _ => "lt" };
        let pv = a["p_value"].as_i64().map(|x| x.to_string()).or_else(|| a["p_value"].as_u64().map(|x| x.to_string())).or_else(|| a["p_value"].as_str().map(|x| x.to_string())).unwrap_or_else(|| "0".into());
        (k.clone(), format!("({} ({} {} {} {} {}))", sx::s(k), sx::s(a["name"].as_str().unwrap_or("")), pt, pv,
            sx::opt(p.requested_predicates.get(k).and_then(|t| t.restrictions.as_ref()), |q| sx::query(q)), iv(&a["non_revoked"])))
    }).collect();
    preds.sort();
    let nonce = doc["nonce"].as_str().unwrap_or("0").to_string();
    format!("({} {} {} {})", nonce, sx::l(&attrs.into_iter().map(|x| x.1).collect::<Vec<_>>()), sx::l(&preds.into_iter().map(|x| x.1).collect::<Vec<_>>()), iv(&doc["non_revoked"]))
}

pub fn request_sexp(r: &PresentationRequest) -> String {
    let p = r.value();
    let mut attrs: Vec<(&String, String)> = p
        .requested_attributes
        .iter()
        .map(|(k, a)| {
            (
                k,
                format!(
                    "({} ({} {} {} {}))",
                    sx::s(k),
                    sx::opt(a.name.as_ref(), |n| sx::s(n)),
                    sx::opt(a.names.as_ref(), |ns| sx::list(ns.iter(), |n| sx::s(n))),
                    sx::opt(a.restrictions.as_ref(), |q| sx::query(q)),
                    interval_sexp(&a.non_revoked)
                ),
            )
        })
        .collect();
    attrs.sort();
    let mut preds: Vec<(&String, String)> = p
        .requested_predicates
        .iter()
        .map(|(k, a)| {
            let pt = match serde_json::to_value(&a.p_type).unwrap().as_str().unwrap() {
                ">=" => "ge",
                "<=" => "le",
                ">" => "gt",
                _ => "lt",
            };
            (k, format!("({} ({} {} {} {} {}))", sx::s(k), sx::s(&a.name), pt, a.p_value, sx::opt(a.restrictions.as_ref(), |q| sx::query(q)), interval_sexp(&a.non_revoked)))
        })
        .collect();
    preds.sort();
    let nonce = serde_json::to_value(&p.nonce).unwrap().as_str().unwrap().to_string();
    format!(
        "({} {} {} {})",
        nonce,
        sx::l(&attrs.into_iter().map(|x| x.1).collect::<Vec<_>>()),
        sx::l(&preds.into_iter().map(|x| x.1).collect::<Vec<_>>()),
        interval_sexp(&p.non_revoked)
    )
}

// ------------------------------------------------------------------ provenance + presentations
#[derive(Clone, Debug)]
pub struct Prov {
    pub cred: usize,      // index into world.creds: which signed credential
    pub used_link: usize, // holder whose link secret went into the proof
    pub pos: usize,       // position when the proof was finalised
    pub nrp: Option<(usize, bool)>, // (list index the witness was made for, witness valid for it)
    pub altered: bool,
}

#[derive(Clone, Debug)]
pub struct AggProv {
    pub nonce: String,
    pub count: usize,
    pub altered: bool,
    pub common: bool,
}

pub fn cvn(s: &str) -> String {
    s.replace(' ', "").to_lowercase()
}

pub fn source_sexp(w: &World, p: &Prov) -> String {
    let c = &w.creds[p.cred];
    let attrs: Vec<String> = w.cds[c.cd].schema.attr_names.0.iter().map(|a| cvn(a)).collect();
    let vals: Vec<(String, String)> = c.legacy.values.0.iter().map(|(k, v)| (cvn(k), v.encoded.clone())).collect();
    let mut vals = vals;
    vals.sort();
    format!(
        "({} {} {} {} {} {} {})",
        c.cd,
        sx::list(attrs.iter(), |a| sx::s(a)),
        sx::list(vals.iter(), |(k, v)| format!("({} {})", sx::s(k), sx::s(v))),
        c.holder,
        p.used_link,
        p.pos,
        sx::boolean(p.altered)
    )
}

/// abstract one CL sub-proof from its serde form (what the public API shows) + provenance
pub fn subproof_sexp(w: &World, sp: &Value, p: &Prov) -> String {
    let mut rv: Vec<(String, String)> = sp["primary_proof"]["eq_proof"]["revealed_attrs"]
        .as_object()
        .map(|m| m.iter().map(|(k, v)| (k.clone(), v.as_str().unwrap_or("").to_string())).collect())
        .unwrap_or_default();
    rv.sort();
    let preds: Vec<String> = sp["primary_proof"]["ge_proofs"]
        .as_array()
        .map(|a| {
            a.iter()
                .map(|g| {
                    let pr = &g["predicate"];
                    let t = match pr["p_type"].as_str().unwrap_or("") {
                        "GE" => "ge",
                        "LE" => "le",
                        "GT" => "gt",
                        _ => "lt",
                    };
                    format!("({} {} {})", sx::s(pr["attr_name"].as_str().unwrap_or("")), t, pr["value"].as_i64().unwrap_or(0))
                })
                .collect()
        })
        .unwrap_or_default();
    let has_nrp = !sp["non_revoc_proof"].is_null();
    let nrp = match (&p.nrp, has_nrp) {
        (Some((li, valid)), true) => format!("((1 {} {}))", w.lists[*li].acc_class, sx::boolean(*valid)),
        _ => "()".to_string(),
    };
    format!("({} {} {} {})", sx::list(rv.iter(), |(k, v)| format!("({} {})", sx::s(k), sx::s(v))), sx::l(&preds), nrp, source_sexp(w, p))
}

fn agg_sexp(a: &AggProv) -> String {
    format!("({} {} {} {})", a.nonce, a.count, sx::boolean(a.altered), sx::boolean(a.common))
}

fn ident_sexp(id: &Value) -> String {
    format!(
        "({} {} {} {})",
        sx::s(id["schema_id"].as_str().unwrap_or("")),
        sx::s(id["cred_def_id"].as_str().unwrap_or("")),
        sx::opt(id.get("rev_reg_id").and_then(|x| x.as_str()), |x| sx::s(x)),
        sx::opt(id.get("timestamp").and_then(|x| x.as_u64()), |x| sx::n(x))
    )
}

fn sorted_obj(v: &Value) -> Vec<(String, Value)> {
    let mut e: Vec<(String, Value)> = v.as_object().map(|m| m.iter().map(|(k, x)| (k.clone(), x.clone())).collect()).unwrap_or_default();
    e.sort_by(|a, b| a.0.cmp(&b.0));
    e
}

/// abstract a legacy presentation given as a JSON document (the same document the library parsed)
pub fn legacy_sexp(w: &World, pres: &Value, provs: &[Prov], agg: &AggProv) -> String {
    let proofs = pres["proof"]["proofs"].as_array().cloned().unwrap_or_default();
    let sps: Vec<String> = proofs.iter().zip(provs.iter()).map(|(sp, p)| subproof_sexp(w, sp, p)).collect();
    let rp = &pres["requested_proof"];
    let idx = |v: &Value| v["sub_proof_index"].as_u64().unwrap_or(0);
    let revealed: Vec<String> = sorted_obj(&rp["revealed_attrs"])
        .iter()
        .map(|(r, v)| format!("({} ({} {} {}))", sx::s(r), idx(v), sx::s(v["raw"].as_str().unwrap_or("")), sx::s(v["encoded"].as_str().unwrap_or(""))))
        .collect();
    let groups: Vec<String> = sorted_obj(&rp["revealed_attr_groups"])
        .iter()
        .map(|(r, v)| {
            let vals: Vec<String> = sorted_obj(&v["values"])
                .iter()
                .map(|(n, x)| format!("({} ({} {}))", sx::s(n), sx::s(x["raw"].as_str().unwrap_or("")), sx::s(x["encoded"].as_str().unwrap_or(""))))
                .collect();
            format!("({} ({} {}))", sx::s(r), idx(v), sx::l(&vals))
        })
        .collect();
    let selfa: Vec<String> = sorted_obj(&rp["self_attested_attrs"]).iter().map(|(r, v)| format!("({} {})", sx::s(r), sx::s(v.as_str().unwrap_or("")))).collect();
    let unrev: Vec<String> = sorted_obj(&rp["unrevealed_attrs"]).iter().map(|(r, v)| format!("({} {})", sx::s(r), idx(v))).collect();
    let preds: Vec<String> = sorted_obj(&rp["predicates"]).iter().map(|(r, v)| format!("({} {})", sx::s(r), idx(v))).collect();
    let ids: Vec<String> = pres["identifiers"].as_array().cloned().unwrap_or_default().iter().map(ident_sexp).collect();
    format!(
        "({} {} ({} {} {} {} {}) {})",
        sx::l(&sps),
        agg_sexp(agg),
        sx::l(&revealed),
        sx::l(&groups),
        sx::l(&selfa),
        sx::l(&unrev),
        sx::l(&preds),
        sx::l(&ids)
    )
}

/// abstract a W3C presentation from its typed form (proof values are decoded by the library)
pub fn w3c_sexp(w: &World, pres: &W3CPresentation, provs: &[Prov], agg: &AggProv) -> String {
    let shape_ok = anoncreds::verif::w3c_presentation_shape_ok(pres);
    let mut creds: Vec<String> = vec![];
    for (i, vc) in pres.verifiable_credential.iter().enumerate() {
        let v = serde_json::to_value(vc).unwrap();
        let issuer = v["issuer"].as_str().map(|s| s.to_string()).or_else(|| v["issuer"]["id"].as_str().map(|s| s.to_string())).unwrap_or_default();
        let subj: Vec<String> = sorted_obj(&v["credentialSubject"])
            .iter()
            .filter(|(k, _)| k != "id")
            .map(|(k, x)| {
                let val = match x {
                    Value::String(s) => format!("(s {})", sx::s(s)),
                    Value::Number(n) => format!("(n {})", n.as_i64().unwrap_or(0)),
                    Value::Bool(b) => format!("(b {})", sx::boolean(*b)),
                    _ => "(s x)".to_string(),
                };
                format!("({} {})", sx::s(k), val)
            })
            .collect();
        // the proof of the entry: the FIRST AnonCreds data integrity proof it carries (selected here on the document,
        // not by the library's accessor); it counts only when it is a credential presentation proof
        let proofs: Vec<Value> = match &v["proof"] {
            Value::Array(a) => a.clone(),
            Value::Null => vec![],
            p => vec![p.clone()],
        };
        let first = proofs.iter().find_map(|p| serde_json::from_value::<anoncreds::data_types::w3c::proof::DataIntegrityProof>(p.clone()).ok().map(|d| (p.clone(), d)));
        let chosen = match &first {
            Some((pj, d)) if pj["proofPurpose"] == "assertionMethod" => d.get_credential_presentation_proof().ok().map(|pv| (pj.clone(), pv.clone())),
            _ => None,
        };
        let (method, pv) = match chosen.as_ref().map(|(pj, pv)| (pj, pv)).ok_or(()) {
            Ok((pj, pv)) => {
                let pvv = serde_json::to_value(pv).unwrap();
                let method = pj["verificationMethod"].as_str().unwrap_or("").to_string();
                let id = json!({"schema_id": pvv["schema_id"], "cred_def_id": pvv["cred_def_id"], "rev_reg_id": pvv["rev_reg_id"], "timestamp": pvv["timestamp"]});
                let prov = provs.get(i).cloned().unwrap_or(Prov { cred: 0, used_link: 0, pos: i, nrp: None, altered: true });
                (method, format!("(({} {}))", ident_sexp(&id), subproof_sexp(w, &pvv["sub_proof"], &prov)))
            }
            Err(_) => (String::new(), "()".to_string()),
        };
        creds.push(format!("({} {} {} {})", sx::s(&issuer), sx::l(&subj), sx::s(&method), pv));
    }
    let has_agg = pres.get_presentation_proof().is_ok();
    format!("({} {} {})", sx::boolean(shape_ok), sx::l(&creds), if has_agg { format!("({})", agg_sexp(agg)) } else { "()".into() })
}

// ------------------------------------------------------------------ running the library
pub fn outcome_of(r: std::thread::Result<anoncreds::Result<bool>>) -> &'static str {
    match r {
        Ok(Ok(true)) => "accept",
        Ok(Ok(false)) => "reject",
        Ok(Err(e)) => {
            if std::env::var("AVH_DEBUG_ERR").is_ok() {
                eprintln!("VERR {}", e);
            }
            "err"
        }
        Err(_) => "panic",
    }
}

/// verification in a thread of its own with a time limit: "hang" when it does not come back (the thread is left behind;
/// it only works on copies). Used where the verifier follows a map the caller supplies (interval overrides).
pub fn verify_with_limit(w3c: bool, pj: Value, r: &PresentationRequest, c: &BuiltCtx, secs: u64) -> &'static str {
    let rj = serde_json::to_value(r).unwrap();
    let schemas: Vec<(String, Value)> = c.schemas.iter().map(|(k, v)| (k.to_string(), serde_json::to_value(v).unwrap())).collect();
    let cred_defs: Vec<(String, Value)> = c.cred_defs.iter().map(|(k, v)| (k.to_string(), serde_json::to_value(v).unwrap())).collect();
    let reg_defs: Option<Vec<(String, Value)>> = c.reg_defs.as_ref().map(|m| m.iter().map(|(k, v)| (k.to_string(), serde_json::to_value(v).unwrap())).collect());
    let lists: Option<Vec<Value>> = c.lists.as_ref().map(|l| l.iter().map(|x| serde_json::to_value(x).unwrap()).collect());
    let ovr: Option<Vec<(String, Vec<(u64, u64)>)>> = c.ovr.as_ref().map(|m| m.iter().map(|(k, v)| (k.to_string(), v.iter().map(|(a, b)| (*a, *b)).collect())).collect());
    let (tx, rx) = std::sync::mpsc::channel();
    std::thread::spawn(move || {
        let out = (|| -> Option<&'static str> {
            let c2 = BuiltCtx {
                schemas: schemas.into_iter().map(|(k, v)| Some((SchemaId::new_unchecked(k), serde_json::from_value(v).ok()?))).collect::<Option<_>>()?,
                cred_defs: cred_defs.into_iter().map(|(k, v)| Some((CredentialDefinitionId::new_unchecked(k), serde_json::from_value(v).ok()?))).collect::<Option<_>>()?,
                reg_defs: match reg_defs { Some(m) => Some(m.into_iter().map(|(k, v)| Some((RevocationRegistryDefinitionId::new_unchecked(k), serde_json::from_value(v).ok()?))).collect::<Option<_>>()?), None => None },
                lists: match lists { Some(l) => Some(l.into_iter().map(|v| serde_json::from_value(v).ok()).collect::<Option<_>>()?), None => None },
                ovr: ovr.map(|m| m.into_iter().map(|(k, v)| (RevocationRegistryDefinitionId::new_unchecked(k), v.into_iter().collect())).collect()),
            };
            let r2: PresentationRequest = serde_json::from_value(rj).ok()?;
            Some(if w3c { verify_w3c(&serde_json::from_value(pj).ok()?, &r2, &c2) } else { verify_legacy(&serde_json::from_value(pj).ok()?, &r2, &c2) })
        })();
        let _ = tx.send(out.unwrap_or("err"));
    });
    rx.recv_timeout(std::time::Duration::from_secs(secs)).unwrap_or("hang")
}

pub fn verify_legacy(p: &Presentation, r: &PresentationRequest, c: &BuiltCtx) -> &'static str {
    let lists = c.lists.clone();
    outcome_of(std::panic::catch_unwind(std::panic::AssertUnwindSafe(|| {
        verifier::verify_presentation(p, r, &c.schemas, &c.cred_defs, c.reg_defs.as_ref(), lists, c.ovr.as_ref())
    })))
}
pub fn verify_w3c(p: &W3CPresentation, r: &PresentationRequest, c: &BuiltCtx) -> &'static str {
    let lists = c.lists.clone();
    outcome_of(std::panic::catch_unwind(std::panic::AssertUnwindSafe(|| {
        w3c::verifier::verify_presentation(p, r, &c.schemas, &c.cred_defs, c.reg_defs.as_ref(), lists, c.ovr.as_ref())
    })))
}

/// what the holder selects for one credential
#[derive(Clone, Debug)]
pub struct Pick {
    pub cred: usize,
    pub attrs: Vec<(String, bool)>, // referent, revealed
    pub preds: Vec<String>,
    pub list: Option<usize>, // status list the revocation state is taken for (None: no state, no timestamp)
    pub inc: bool,           // use the incrementally derived state when there is one
}

impl World {
    pub fn state_of(&self, p: &Pick) -> Option<&CredentialRevocationState> {
        let li = p.list?;
        if p.inc {
            if let Some(s) = self.states_inc.get(&(p.cred, li)) {
                return Some(s);
            }
        }
        self.states.get(&(p.cred, li))
    }
}

pub fn make_legacy(w: &World, req: &PresentationRequest, picks: &[Pick], self_attested: &[(String, String)], holder: usize) -> Option<(Presentation, Vec<Prov>, AggProv)> {
    try_legacy(w, req, picks, self_attested, holder).ok()
}
pub fn try_legacy(w: &World, req: &PresentationRequest, picks: &[Pick], self_attested: &[(String, String)], holder: usize) -> Result<(Presentation, Vec<Prov>, AggProv), &'static str> {
    let mut pc: PresentCredentials<Credential> = PresentCredentials::default();
    let mut provs = vec![];
    for p in picks.iter() {
        let st = w.state_of(p);
        let ts = st.map(|_| w.lists[p.list.unwrap()].ts);
        let mut ac = pc.add_credential(&w.creds[p.cred].legacy, ts, st);
        for (r, rev) in &p.attrs {
            ac.add_requested_attribute(r.clone(), *rev);
        }
        for r in &p.preds {
            ac.add_requested_predicate(r.clone());
        }
        if !(p.attrs.is_empty() && p.preds.is_empty()) {
            let nrp = match (p.list, w.creds[p.cred].rev_idx) {
                (Some(li), Some(idx)) if st.is_some() => Some((li, !w.lists[li].revoked.contains(&idx))),
                _ => None,
            };
            provs.push(Prov { cred: p.cred, used_link: holder, pos: provs.len(), nrp, altered: false });
        }
    }
    let sa: HashMap<String, String> = self_attested.iter().cloned().collect();
    let res = std::panic::catch_unwind(std::panic::AssertUnwindSafe(|| {
        prover::create_presentation(req, pc, if sa.is_empty() { None } else { Some(sa) }, &w.holders[holder], &w.schemas(), &w.cred_defs())
    }));
    match res {
        Ok(Ok(p)) => {
            let nonce = serde_json::to_value(&req.value().nonce).unwrap().as_str().unwrap().to_string();
            let agg = AggProv { nonce, count: provs.len(), altered: false, common: true };
            Ok((p, provs, agg))
        }
        Ok(Err(e)) => {
            if std::env::var("AVH_DEBUG").is_ok() {
                eprintln!("make_legacy failed: {}", e);
            }
            Err("err")
        }
        Err(_) => Err("panic"),
    }
}

pub fn make_w3c(w: &World, req: &PresentationRequest, picks: &[Pick], holder: usize) -> Option<(W3CPresentation, Vec<Prov>, AggProv)> {
    try_w3c(w, req, picks, holder).ok()
}
pub fn try_w3c(w: &World, req: &PresentationRequest, picks: &[Pick], holder: usize) -> Result<(W3CPresentation, Vec<Prov>, AggProv), &'static str> {
    try_w3c_opt(w, req, picks, holder, false)
}
pub fn try_w3c_opt(w: &World, req: &PresentationRequest, picks: &[Pick], holder: usize, multi: bool) -> Result<(W3CPresentation, Vec<Prov>, AggProv), &'static str> {
    let mut pc: PresentCredentials<W3CCredential> = PresentCredentials::default();
    let mut provs = vec![];
    for p in picks.iter() {
        let st = w.state_of(p);
        let ts = st.map(|_| w.lists[p.list.unwrap()].ts);
        let mut ac = pc.add_credential(if multi { &w.creds[p.cred].w3c_multi } else { &w.creds[p.cred].w3c }, ts, st);
        for (r, rev) in &p.attrs {
            ac.add_requested_attribute(r.clone(), *rev);
        }
        for r in &p.preds {
            ac.add_requested_predicate(r.clone());
        }
        if !(p.attrs.is_empty() && p.preds.is_empty()) {
            let nrp = match (p.list, w.creds[p.cred].rev_idx) {
                (Some(li), Some(idx)) if st.is_some() => Some((li, !w.lists[li].revoked.contains(&idx))),
                _ => None,
            };
            provs.push(Prov { cred: p.cred, used_link: holder, pos: provs.len(), nrp, altered: false });
        }
    }
    let res = std::panic::catch_unwind(std::panic::AssertUnwindSafe(|| w3c::prover::create_presentation(req, pc, &w.holders[holder], &w.schemas(), &w.cred_defs(), None)));
    match res {
        Ok(Ok(p)) => {
            let nonce = serde_json::to_value(&req.value().nonce).unwrap().as_str().unwrap().to_string();
            let agg = AggProv { nonce, count: provs.len(), altered: false, common: true };
            Ok((p, provs, agg))
        }
        Ok(Err(e)) => {
            if std::env::var("AVH_DEBUG").is_ok() {
                eprintln!("make_w3c failed: {}", e);
            }
            Err("err")
        }
        Err(_) => Err("panic"),
    }
}

// ------------------------------------------------------------------ proofs crafted at CL level
/// One sub-proof the honest API would not build: any credential with any holder's link secret.
#[derive(Clone, Debug)]
pub struct CraftSub {
    pub cred: usize,
    pub link: usize,
    pub revealed: Vec<String>,              // attribute names to reveal
    pub preds: Vec<(String, String, i32)>,   // name, "GE"|"GT"|"LE"|"LT", value
}

/// Build a legacy presentation directly with the CL crate (`anoncreds::cl`): one link secret PER
/// sub-proof, with or without the prover-side common attribute. `rp` is the requested_proof document.
/// W3C counterpart of craft_legacy: an honest W3C presentation (structure, subjects) whose CL proof is replaced by a
/// joint proof built here with a link secret of its own per sub-proof
pub fn craft_w3c(w: &World, req: &PresentationRequest, picks: &[Pick], subs: &[CraftSub], common: bool) -> Option<(W3CPresentation, Vec<Prov>, AggProv)> {
    use anoncreds::data_types::w3c::credential::CredentialProof;
    use anoncreds::data_types::w3c::one_or_many::OneOrMany;
    use anoncreds::data_types::w3c::proof::{DataIntegrityProof, PresentationProofValue, ProofPurpose};
    let (mut p, _, _) = make_w3c(w, req, picks, subs.first()?.link)?;
    let (doc, provs, agg) = craft_legacy(w, req, subs, common, json!({}))?;
    if p.verifiable_credential.len() != subs.len() {
        return None;
    }
    for (i, vc) in p.verifiable_credential.iter_mut().enumerate() {
        let mut pv = vc.get_credential_presentation_proof().ok()?.clone();
        pv.sub_proof = serde_json::from_value(doc["proof"]["proofs"][i].clone()).ok()?;
        let method = pv.cred_def_id.to_string();
        let proof = DataIntegrityProof::new(ProofPurpose::AssertionMethod, method, &pv, None).ok()?;
        vc.proof = OneOrMany::One(CredentialProof::AnonCredsDataIntegrityProof(proof));
    }
    let aggregated = serde_json::from_value(doc["proof"]["aggregated_proof"].clone()).ok()?;
    let method = serde_json::to_value(&p.proof).ok()?["verificationMethod"].as_str().unwrap_or("").to_string();
    p.proof = DataIntegrityProof::new(ProofPurpose::Authentication, method, &PresentationProofValue { aggregated }, Some(agg.nonce.clone())).ok()?;
    Some((p, provs, agg))
}

pub fn craft_legacy(w: &World, req: &PresentationRequest, subs: &[CraftSub], common: bool, rp: Value) -> Option<(Value, Vec<Prov>, AggProv)> {
    use anoncreds::cl::{Predicate, PredicateType, Prover};
    let res = std::panic::catch_unwind(std::panic::AssertUnwindSafe(|| -> Option<Value> {
        let mut pb = Prover::new_proof_builder().ok()?;
        if common {
            pb.add_common_attribute("master_secret").ok()?;
        }
        let ncs = anoncreds::verif::build_non_credential_schema().ok()?;
        for s in subs {
            let c = &w.creds[s.cred];
            let cd = &w.cds[c.cd];
            let schema = anoncreds::verif::build_credential_schema(&cd.schema).ok()?;
            let values = anoncreds::verif::build_credential_values(&c.legacy.values, Some(&w.holders[s.link])).ok()?;
            let preds: Vec<Predicate> = s
                .preds
                .iter()
                .map(|(n, t, v)| Predicate {
                    attr_name: n.clone(),
                    p_type: match t.as_str() {
                        "GE" => PredicateType::GE,
                        "GT" => PredicateType::GT,
                        "LE" => PredicateType::LE,
                        _ => PredicateType::LT,
                    },
                    value: *v,
                })
                .collect();
            let spr = anoncreds::verif::build_sub_proof_request(&s.revealed, &preds).ok()?;
            let pk = cd.cred_def.get_public_key().ok()?;
            pb.add_sub_proof_request(&spr, &schema, &ncs, &c.legacy.signature, &values, &pk, None, None).ok()?;
        }
        let proof = pb.finalize(req.value().nonce.as_native()).ok()?;
        let ids: Vec<Value> = subs
            .iter()
            .map(|s| {
                let c = &w.creds[s.cred];
                json!({"schema_id": w.cds[c.cd].schema_id, "cred_def_id": w.cds[c.cd].cred_def_id})
            })
            .collect();
        Some(json!({"proof": serde_json::to_value(&proof).ok()?, "requested_proof": rp, "identifiers": ids}))
    }));
    let doc = res.ok()??;
    let provs = subs.iter().enumerate().map(|(i, s)| Prov { cred: s.cred, used_link: s.link, pos: i, nrp: None, altered: false }).collect();
    let nonce = serde_json::to_value(&req.value().nonce).unwrap().as_str().unwrap().to_string();
    Some((doc, provs, AggProv { nonce, count: subs.len(), altered: false, common }))
}
