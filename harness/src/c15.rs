//! C15: every exchanged object survives its wire format with identical meaning.
//! (a) unit cases of the hand-written codecs against the model of Model/Codec.v:
//!     (C15 id N json impl) Nonce ; (C15 id B json impl) revocation list ; (C15 id V json impl)
//!     presentation-request version ; (C15 id T json impl) proof-value tag ; (C15 id M str impl) multibase header
//! (b) protocol flows (legacy and W3C, revocable or not, several request shapes) run once without
//!     and once with a serialise / deserialise hop at ONE hand-over point, for every hand-over point:
//!     (C15 id H type stage same-document outcome-without outcome-with)
use crate::out::Out;
use crate::rng::Rng;
use crate::sx;
use crate::world::{self, CredDefSetup, RegSetup};
use anoncreds::data_types::cred_def::{CredentialDefinition, CredentialDefinitionId};
use anoncreds::data_types::nonce::Nonce;
use anoncreds::data_types::pres_request::PresentationRequest;
use anoncreds::data_types::rev_reg_def::{RevocationRegistryDefinition, RevocationRegistryDefinitionId};
use anoncreds::data_types::schema::{Schema, SchemaId};
use anoncreds::types::{CredentialRevocationConfig, MakeCredentialValues, PresentCredentials, RevocationStatusList};
use anoncreds::{issuer, prover, verifier, w3c};
use serde::de::DeserializeOwned;
use serde::Serialize;
use serde_json::{json, Value};
use std::cell::RefCell;
use std::collections::HashMap;

/// the stage at which a hop is inserted in the current run, and what the hops observed
struct Hops {
    at: Option<&'static str>,
    seen: RefCell<Vec<(&'static str, &'static str, bool)>>, // (stage, type, same document)
    failed: RefCell<Option<&'static str>>,
}
impl Hops {
    fn pass<T: Serialize + DeserializeOwned>(&self, stage: &'static str, ty: &'static str, x: T) -> Option<T> {
        if self.at != Some(stage) {
            return Some(x);
        }
        let text = serde_json::to_string(&x).ok()?;
        match serde_json::from_str::<T>(&text) {
            Ok(y) => {
                let again = serde_json::to_string(&y).ok()?;
                // "the same document": equal as JSON values, multibase / msgpack proof values compared
                // after decoding (key order of objects and msgpack maps varies between two
                // serialisations of the SAME object because the library's hash maps iterate randomly)
                let same = normalise(serde_json::from_str::<Value>(&again).ok()?) == normalise(serde_json::from_str::<Value>(&text).ok()?);
                if !same && std::env::var("AVH_DEBUG").is_ok() {
                    let a: Value = serde_json::from_str(&text).unwrap();
                    let b: Value = serde_json::from_str(&again).unwrap();
                    fn walk(path: String, a: &Value, b: &Value) {
                        match (a, b) {
                            (Value::Object(x), Value::Object(y)) => {
                                for (k, v) in x {
                                    match y.get(k) {
                                        Some(w) => walk(format!("{}/{}", path, k), v, w),
                                        None => eprintln!("HOPDIFF {} missing after hop: {}", path, k),
                                    }
                                }
                                for k in y.keys() {
                                    if !x.contains_key(k) {
                                        eprintln!("HOPDIFF {} new after hop: {}", path, k);
                                    }
                                }
                            }
                            (Value::Array(x), Value::Array(y)) if x.len() == y.len() => {
                                for (i, (v, w)) in x.iter().zip(y.iter()).enumerate() {
                                    walk(format!("{}[{}]", path, i), v, w);
                                }
                            }
                            _ => {
                                if a != b {
                                    eprintln!("HOPDIFF {}: {} => {}", path, a.to_string().chars().take(120).collect::<String>(), b.to_string().chars().take(120).collect::<String>());
                                }
                            }
                        }
                    }
                    walk(ty.to_string(), &a, &b);
                }
                self.seen.borrow_mut().push((stage, ty, same));
                Some(y)
            }
            Err(_) => {
                *self.failed.borrow_mut() = Some(stage);
                None
            }
        }
    }
}

pub fn normalise(v: Value) -> Value {
    match v {
        Value::String(s) if s.starts_with('u') && s.len() > 40 => {
            use base64::Engine;
            if let Ok(b) = base64::engine::general_purpose::URL_SAFE_NO_PAD.decode(&s[1..]) {
                if let Ok(pv) = rmp_serde::from_slice::<anoncreds::data_types::w3c::proof::DataIntegrityProofValue>(&b) {
                    if let Ok(inner) = serde_json::to_value(&pv) {
                        return json!({"multibase-msgpack": inner});
                    }
                }
            }
            Value::String(s)
        }
        Value::Array(a) => Value::Array(a.into_iter().map(normalise).collect()),
        Value::Object(o) => Value::Object(o.into_iter().map(|(k, x)| (k, normalise(x))).collect()),
        x => x,
    }
}

const STAGES: [&str; 16] = [
    "schema", "cred_def", "cred_def_private", "key_correctness_proof", "offer", "request", "request_metadata", "credential-received", "credential-stored",
    "rev_reg_def", "status_list", "rev_state", "presentation_request", "presentation", "w3c_credential", "w3c_presentation",
];

struct Flow {
    revocable: bool,
    w3c: bool,
    request: Value,
    reveal: Vec<(&'static str, bool)>,
    preds: Vec<&'static str>,
    name: &'static str,
}

/// the whole protocol; returns the verifier's outcome ("accept" | "reject" | "err" | "panic" | "stopped:<stage>")
fn run_flow(cd: &CredDefSetup, reg: &RegSetup, ls: &anoncreds::data_types::link_secret::LinkSecret, f: &Flow, h: &Hops) -> String {
    let r = std::panic::catch_unwind(std::panic::AssertUnwindSafe(|| -> Option<&'static str> {
        let schema: Schema = h.pass("schema", "Schema", cd.schema.clone())?;
        let cred_def: CredentialDefinition = h.pass("cred_def", "CredentialDefinition", cd.cred_def.try_clone().ok()?)?;
        let cred_def_priv = h.pass("cred_def_private", "CredentialDefinitionPrivate", serde_json::from_value::<anoncreds::types::CredentialDefinitionPrivate>(serde_json::to_value(&cd.cred_def_priv).ok()?).ok()?)?;
        let kcp = h.pass("key_correctness_proof", "CredentialKeyCorrectnessProof", cd.kcp.try_clone().ok()?)?;
        let offer = issuer::create_credential_offer(cd.schema_id.as_str().try_into().ok()?, cd.cred_def_id.as_str().try_into().ok()?, &kcp).ok()?;
        let offer = h.pass("offer", "CredentialOffer", offer)?;
        let (req, md) = prover::create_credential_request(Some("entropy"), None, &cred_def, ls, "ls", &offer).ok()?;
        let req = h.pass("request", "CredentialRequest", req)?;
        let md = h.pass("request_metadata", "CredentialRequestMetadata", md)?;
        let reg_def: RevocationRegistryDefinition = h.pass("rev_reg_def", "RevocationRegistryDefinition", reg.def.clone())?;
        let list0: RevocationStatusList = world::initial_list(cd, reg, true, Some(100));
        let list0 = h.pass("status_list", "RevocationStatusList", list0)?;
        let mut values = MakeCredentialValues::default();
        for (k, v) in [("name", "Alex"), ("age", "28"), ("Zip Code", "007"), ("note", "Zoë ✓")] {
            values.add_raw(k, v).ok()?;
        }
        let rc = if f.revocable { Some(CredentialRevocationConfig { reg_def: &reg_def, reg_def_private: &reg.def_priv, status_list: &list0, registry_idx: 2 }) } else { None };
        let cred = issuer::create_credential(&cred_def, &cred_def_priv, &offer, &req, values.into(), rc).ok()?;
        let mut cred = h.pass("credential-received", "Credential", cred)?;
        prover::process_credential(&mut cred, &md, ls, &cred_def, if f.revocable { Some(&reg_def) } else { None }).ok()?;
        let cred = h.pass("credential-stored", "Credential", cred)?;
        let state = if f.revocable { Some(prover::create_or_update_revocation_state(&reg_def.value.tails_location, &reg_def, &list0, 2, None, None).ok()?) } else { None };
        let state = match state {
            Some(s) => Some(h.pass("rev_state", "CredentialRevocationState", s)?),
            None => None,
        };
        let mut rdoc = f.request.clone();
        if f.revocable {
            rdoc["non_revoked"] = json!({"from": 50, "to": 150});
        }
        let preq: PresentationRequest = serde_json::from_value(rdoc).ok()?;
        let preq = h.pass("presentation_request", "PresentationRequest", preq)?;
        let schemas: HashMap<SchemaId, Schema> = [(SchemaId::new_unchecked(cd.schema_id.clone()), schema)].into_iter().collect();
        let cred_defs: HashMap<CredentialDefinitionId, CredentialDefinition> = [(CredentialDefinitionId::new_unchecked(cd.cred_def_id.clone()), cred_def)].into_iter().collect();
        let reg_defs: HashMap<RevocationRegistryDefinitionId, RevocationRegistryDefinition> = [(RevocationRegistryDefinitionId::new_unchecked(reg.rev_reg_id.clone()), reg_def)].into_iter().collect();
        let (rd, ll) = if f.revocable { (Some(&reg_defs), Some(vec![list0.clone()])) } else { (None, None) };
        let ts = if f.revocable { Some(100u64) } else { None };
        let ok = if !f.w3c {
            let mut pc = PresentCredentials::default();
            let mut ac = pc.add_credential(&cred, ts, state.as_ref());
            for (r, b) in &f.reveal {
                ac.add_requested_attribute(*r, *b);
            }
            for p in &f.preds {
                ac.add_requested_predicate(*p);
            }
            let p = prover::create_presentation(&preq, pc, None, ls, &schemas, &cred_defs).ok()?;
            let p = h.pass("presentation", "Presentation", p)?;
            verifier::verify_presentation(&p, &preq, &schemas, &cred_defs, rd, ll, None)
        } else {
            let issuer_id: anoncreds::data_types::issuer_id::IssuerId = cd.issuer_id.as_str().try_into().ok()?;
            let wc = w3c::credential_conversion::credential_to_w3c(&cred, &issuer_id, None).ok()?;
            let wc = h.pass("w3c_credential", "W3CCredential", wc)?;
            let mut pc = PresentCredentials::default();
            let mut ac = pc.add_credential(&wc, ts, state.as_ref());
            for (r, b) in &f.reveal {
                ac.add_requested_attribute(*r, *b);
            }
            for p in &f.preds {
                ac.add_requested_predicate(*p);
            }
            let p = w3c::prover::create_presentation(&preq, pc, ls, &schemas, &cred_defs, None).ok()?;
            let p = h.pass("w3c_presentation", "W3CPresentation", p)?;
            w3c::verifier::verify_presentation(&p, &preq, &schemas, &cred_defs, rd, ll, None)
        };
        Some(match ok {
            Ok(true) => "accept",
            Ok(false) => "reject",
            Err(_) => "err",
        })
    }));
    match r {
        Ok(Some(o)) => o.to_string(),
        Ok(None) => match *h.failed.borrow() {
            Some(s) => format!("unreadable:{}", s),
            None => "stopped".to_string(),
        },
        Err(_) => "panic".to_string(),
    }
}

fn bits_str(v: &Value) -> String {
    v["revocationList"].as_array().map(|a| a.iter().map(|b| if b.as_u64() == Some(1) { '1' } else { '0' }).collect()).unwrap_or_default()
}

pub fn run(tier: &str, seed: u64, outdir: &str) {
    let mut out = Out::new(outdir);
    let mut r = Rng::new(seed ^ 0xC15);
    let thorough = tier == "thorough";
    // ---------- unit cases of the hand-written codecs ----------
    let mut nonces: Vec<Value> = vec![
        json!("0"), json!("1"), json!("007"), json!("123456789012345678901234567890"), json!(""), json!("-1"), json!("+1"), json!("1a"), json!(" 1"), json!("１２"),
        json!(0), json!(7), json!(-7), json!(18446744073709551615u64), json!(1.5), json!(null), json!(true), json!({}), json!([1, 2, 3]), json!([]), json!(["1"]),
    ];
    // bare JSON numbers beyond u64 reach serde as floats (80-bit nonces written as numbers): refused, never rounded
    for text in ["18446744073709551616", "1208925819614629174706177", "1208925819614629174707176", "340282366920938463463374607431768211456", "1e30", "1.0e19", "-18446744073709551616", "12345678901234567890123"] {
        if let Ok(v) = serde_json::from_str::<Value>(text) {
            nonces.push(v);
        }
    }
    for _ in 0..(if thorough { 400 } else { 60 }) {
        let n = 1 + r.below(40);
        let s: String = (0..n).map(|_| if r.chance(1, 15) { *r.pick(&['a', '-', ' ', '٣', '.']) } else { (b'0' + r.below(10) as u8) as char }).collect();
        nonces.push(json!(s));
    }
    for j in &nonces {
        let res = std::panic::catch_unwind(|| serde_json::from_value::<Nonce>(j.clone()));
        let impl_sx = match res {
            Ok(Ok(n)) => format!("(ok {})", sx::s(n.as_ref())),
            Ok(Err(_)) => "(err)".to_string(),
            Err(_) => "(panic)".to_string(),
        };
        let id = out.next_id();
        out.case(&format!("(C15 {} N {} {})", id, sx::json(j), impl_sx), "codec:nonce", || json!({"codec": "nonce", "input": j}));
    }
    // revocation list inside a status-list document
    let cd = world::make_cred_def("did:web:w.example/schema/1", "s", "1.0", "did:web:w.example", &["name", "age", "Zip Code", "note"], "did:web:w.example/cd/1", "did:web:w.example", true);
    let tails = format!("{}/tails", outdir);
    let reg = world::make_registry(&cd, "did:web:w.example/reg/1", "r1", 5, &tails);
    let list0 = world::initial_list(&cd, &reg, true, Some(100));
    let ldoc = serde_json::to_value(&list0).unwrap();
    let mut lists: Vec<Value> = vec![json!([]), json!([0]), json!([1, 0, 1]), json!([0, 2]), json!([0, -1]), json!([0, "1"]), json!([true]), json!([0, 1.0]), json!("101"), json!(null), json!([[0]]), json!([0, null])];
    for _ in 0..(if thorough { 200 } else { 30 }) {
        let n = r.below(9);
        lists.push(Value::Array((0..n).map(|_| if r.chance(1, 12) { json!(r.below(4) as i64 - 1) } else { json!(r.below(2)) }).collect()));
    }
    // lengths around machine-word boundaries
    for n in [31usize, 32, 33, 63, 64, 65, 127, 128, 129, 192, 256] {
        lists.push(Value::Array((0..n).map(|i| json!(if i % 7 == 3 || i + 1 == n { 1 } else { 0 })).collect()));
        lists.push(Value::Array((0..n).map(|_| json!(0)).collect()));
    }
    for l in &lists {
        let mut d = ldoc.clone();
        d["revocationList"] = l.clone();
        // the accumulator is irrelevant to the list codec; drop it so that only the list decides
        d.as_object_mut().unwrap().remove("currentAccumulator");
        let res = std::panic::catch_unwind(|| serde_json::from_value::<RevocationStatusList>(d.clone()));
        let impl_sx = match res {
            Ok(Ok(x)) => format!("(ok {})", sx::s(&bits_str(&serde_json::to_value(&x).unwrap()))),
            Ok(Err(_)) => "(err)".to_string(),
            Err(_) => "(panic)".to_string(),
        };
        let id = out.next_id();
        out.case(&format!("(C15 {} B {} {})", id, sx::json(l), impl_sx), "codec:revocation-list", || json!({"codec": "revocation-list", "input": l}));
    }
    // version tag of a presentation request
    for ver in [None, Some(json!("1.0")), Some(json!("2.0")), Some(json!("3.0")), Some(json!("")), Some(json!(2)), Some(json!(null)), Some(json!("2")), Some(json!(["2.0"]))] {
        let mut d = json!({"nonce": "123", "name": "r", "version": "0.1", "requested_attributes": {"a": {"name": "x"}}, "requested_predicates": {}});
        if let Some(v) = &ver {
            d["ver"] = v.clone();
        }
        let res = std::panic::catch_unwind(|| serde_json::from_value::<PresentationRequest>(d.clone()));
        let (impl_sx, again) = match res {
            Ok(Ok(x)) => {
                let back = serde_json::to_value(&x).unwrap();
                (match x { PresentationRequest::PresentationRequestV1(_) => "v1", PresentationRequest::PresentationRequestV2(_) => "v2" }.to_string(), back["ver"].clone())
            }
            Ok(Err(_)) => ("err".to_string(), Value::Null),
            Err(_) => ("panic".to_string(), Value::Null),
        };
        let id = out.next_id();
        out.case(&format!("(C15 {} V {} {} {})", id, sx::json(&d), impl_sx, sx::json(&again)), "codec:request-version", || json!({"codec": "request-version", "ver": ver}));
    }

    // ---------- flows with one hop ----------
    let ls = prover::create_link_secret().unwrap();
    let flows: Vec<Flow> = vec![
        Flow { name: "attributes-and-predicate", revocable: false, w3c: false, request: json!({"nonce": "4711", "name": "r", "version": "0.1", "ver": "2.0",
            "requested_attributes": {"a": {"name": "name"}, "z": {"name": "zip code", "restrictions": {"cred_def_id": {"$in": ["x", "did:web:w.example/cd/1"]}}}}, "requested_predicates": {"p": {"name": "age", "p_type": ">=", "p_value": 18}}}),
            reveal: vec![("a", true), ("z", false)], preds: vec!["p"] },
        Flow { name: "predicate-only", revocable: false, w3c: false, request: json!({"nonce": "4712", "name": "r", "version": "0.1",
            "requested_attributes": {}, "requested_predicates": {"p": {"name": "age", "p_type": "<", "p_value": 65}}}),
            reveal: vec![], preds: vec!["p"] },
        Flow { name: "group-only", revocable: false, w3c: false, request: json!({"nonce": "4713", "name": "r", "version": "0.1",
            "requested_attributes": {"g": {"names": ["name", "note"]}}, "requested_predicates": {}}),
            reveal: vec![("g", true)], preds: vec![] },
        Flow { name: "unrevealed-only", revocable: false, w3c: false, request: json!({"nonce": "4714", "name": "r", "version": "0.1",
            "requested_attributes": {"a": {"name": "note"}}, "requested_predicates": {}}),
            reveal: vec![("a", false)], preds: vec![] },
        Flow { name: "empty-in-restriction", revocable: false, w3c: false, request: json!({"nonce": "4715", "name": "r", "version": "0.1",
            "requested_attributes": {"a": {"name": "name", "restrictions": {"cred_def_id": {"$in": []}}}}, "requested_predicates": {}}),
            reveal: vec![("a", true)], preds: vec![] },
        Flow { name: "empty-and-restriction", revocable: false, w3c: false, request: json!({"nonce": "4716", "name": "r", "version": "0.1",
            "requested_attributes": {"a": {"name": "name", "restrictions": {"$and": []}}, "b": {"name": "age", "restrictions": []}}, "requested_predicates": {}}),
            reveal: vec![("a", true), ("b", true)], preds: vec![] },
        Flow { name: "revocable", revocable: true, w3c: false, request: json!({"nonce": "4717", "name": "r", "version": "0.1",
            "requested_attributes": {"a": {"name": "name", "non_revoked": {"to": 120}}}, "requested_predicates": {"p": {"name": "age", "p_type": ">", "p_value": 1}}}),
            reveal: vec![("a", true)], preds: vec!["p"] },
        Flow { name: "w3c-attributes-and-predicate", revocable: false, w3c: true, request: json!({"nonce": "4718", "name": "r", "version": "0.1",
            "requested_attributes": {"a": {"name": "name"}, "n": {"name": "note"}}, "requested_predicates": {"p": {"name": "age", "p_type": ">=", "p_value": 18}}}),
            reveal: vec![("a", true), ("n", true)], preds: vec!["p"] },
        Flow { name: "w3c-predicate-only", revocable: false, w3c: true, request: json!({"nonce": "4719", "name": "r", "version": "0.1",
            "requested_attributes": {}, "requested_predicates": {"p": {"name": "age", "p_type": "<=", "p_value": 28}}}),
            reveal: vec![], preds: vec!["p"] },
        Flow { name: "w3c-revocable", revocable: true, w3c: true, request: json!({"nonce": "4720", "name": "r", "version": "0.1",
            "requested_attributes": {"a": {"name": "Zip Code"}}, "requested_predicates": {}}),
            reveal: vec![("a", true)], preds: vec![] },
    ];
    let mut jobs: Vec<(usize, Option<&'static str>)> = vec![];
    for fi in 0..flows.len() {
        jobs.push((fi, None));
        for s in STAGES.iter() {
            jobs.push((fi, Some(*s)));
        }
    }
    let results = crate::par::par_map(&jobs, crate::par::ncpu(), |_, (fi, at)| {
        let h = Hops { at: *at, seen: RefCell::new(vec![]), failed: RefCell::new(None) };
        let o = run_flow(&cd, &reg, &ls, &flows[*fi], &h);
        let seen = h.seen.borrow().clone();
        (o, seen)
    });
    let mut base: HashMap<usize, String> = HashMap::new();
    for ((fi, at), (o, _)) in jobs.iter().zip(results.iter()) {
        if at.is_none() {
            base.insert(*fi, o.clone());
        }
    }
    for ((fi, at), (o, seen)) in jobs.iter().zip(results.iter()) {
        let Some(stage) = at else { continue };
        let f = &flows[*fi];
        // a stage this flow does not pass through leaves no observation
        if seen.is_empty() && !o.starts_with("unreadable") {
            out.bump("hop:stage-not-in-flow");
            continue;
        }
        let (ty, same) = seen.first().map(|(_, t, s)| (*t, *s)).unwrap_or(("?", false));
        let id = out.next_id();
        out.case(
            &format!("(C15 {} H {} {} {} {} {})", id, sx::s(ty), sx::s(stage), sx::boolean(same), sx::s(&base[fi]), sx::s(o)),
            &format!("hop:{}", stage),
            || json!({"flow": f.name, "stage": stage, "same_document": same, "outcome_without_hop": base[fi], "outcome_with_hop": o}),
        );
        out.bump(&format!("flow:{}", f.name));
    }
    // ---------- documents a peer may send that the library itself never writes ----------
    // valid documents whose leaf values are rewritten to other VALID values of the same JSON type (numeric-looking
    // strings, non-canonical spellings, empty strings, boundary numbers): reading and writing them back must give
    // the same document
    {
        let mut docs: Vec<(&'static str, Value)> = vec![];
        let made = std::panic::catch_unwind(std::panic::AssertUnwindSafe(|| -> Option<Vec<(&'static str, Value)>> {
            let offer = issuer::create_credential_offer(cd.schema_id.as_str().try_into().ok()?, cd.cred_def_id.as_str().try_into().ok()?, &cd.kcp).ok()?;
            let (req, md) = prover::create_credential_request(Some("entropy"), None, &cd.cred_def, &ls, "ls", &offer).ok()?;
            let mut values = MakeCredentialValues::default();
            for (k, v) in [("name", "Alex"), ("age", "28"), ("Zip Code", "007"), ("note", "Zoë ✓")] {
                values.add_raw(k, v).ok()?;
            }
            let mut cred = issuer::create_credential(&cd.cred_def, &cd.cred_def_priv, &offer, &req, values.into(), None).ok()?;
            prover::process_credential(&mut cred, &md, &ls, &cd.cred_def, None).ok()?;
            let issuer_id: anoncreds::data_types::issuer_id::IssuerId = cd.issuer_id.as_str().try_into().ok()?;
            let wc = w3c::credential_conversion::credential_to_w3c(&cred, &issuer_id, None).ok()?;
            Some(vec![("Credential", serde_json::to_value(&cred).ok()?), ("W3CCredential", serde_json::to_value(&wc).ok()?)])
        }));
        if let Ok(Some(v)) = made {
            docs = v;
        }
        let strings = ["00501", "+5", "-0", "007", " 7", "7 ", "1e3", "2147483648", "-2147483649", "true", "null", "", "0x10", "１２", "28.0"];
        let numbers = [json!(0), json!(-1), json!(2147483647), json!(-2147483648i64)];
        for (ty, doc) in docs.iter() {
            // paths of the leaves that carry attribute values
            let mut edits: Vec<(String, Value)> = vec![];
            match *ty {
                "W3CCredential" => {
                    for k in ["name", "age", "Zip Code", "note"] {
                        for sv in strings.iter() {
                            let mut d = doc.clone();
                            d["credentialSubject"][k] = json!(sv);
                            edits.push((format!("subject:{}:string:{}", k, sv), d));
                        }
                        for n in numbers.iter() {
                            let mut d = doc.clone();
                            d["credentialSubject"][k] = n.clone();
                            edits.push((format!("subject:{}:number:{}", k, n), d));
                        }
                    }
                }
                _ => {
                    for k in ["name", "age", "Zip Code", "note"] {
                        for sv in strings.iter() {
                            let mut d = doc.clone();
                            d["values"][k]["raw"] = json!(sv);
                            edits.push((format!("values:{}:raw:{}", k, sv), d));
                            let mut d = doc.clone();
                            d["values"][k]["encoded"] = json!(sv);
                            edits.push((format!("values:{}:encoded:{}", k, sv), d));
                        }
                    }
                }
            }
            for (what, d) in edits {
                let res = std::panic::catch_unwind(|| -> Option<Value> {
                    if *ty == "W3CCredential" {
                        serde_json::to_value(serde_json::from_value::<anoncreds::data_types::w3c::credential::W3CCredential>(d.clone()).ok()?).ok()
                    } else {
                        serde_json::to_value(serde_json::from_value::<anoncreds::data_types::credential::Credential>(d.clone()).ok()?).ok()
                    }
                });
                let (same, o) = match res {
                    Ok(Some(back)) => (normalise(back) == normalise(d.clone()), "read"),
                    Ok(None) => (false, "unreadable"),
                    Err(_) => (false, "panic"),
                };
                let id = out.next_id();
                let stage = format!("edited:{}", what);
                out.case(
                    &format!("(C15 {} H {} {} {} {} {})", id, sx::s(ty), sx::s(&stage), sx::boolean(same), sx::s("read"), sx::s(o)),
                    "hop:edited-document",
                    || json!({"type": ty, "edit": what, "same_document": same, "outcome": o}),
                );
            }
        }
    }
    // ---------- non-revocation intervals of a request: an interval without bounds is an interval ----------
    // each form at each of the three places; after a read and a write the place holds an object with the same bounds
    // (null members dropped), not nothing
    {
        let forms = [json!({}), json!({"from": null, "to": null}), json!({"from": null}), json!({"from": 5}), json!({"to": 7}), json!({"from": 5, "to": 7}), json!({"from": 0, "to": 0})];
        for (pi, place) in ["request", "attribute", "predicate"].iter().enumerate() {
            for f in forms.iter() {
                let mut d = json!({"nonce": "4711", "name": "r", "version": "0.1", "requested_attributes": {"a": {"name": "x"}}, "requested_predicates": {"p": {"name": "y", "p_type": ">=", "p_value": 1}}});
                match pi { 0 => d["non_revoked"] = f.clone(), 1 => d["requested_attributes"]["a"]["non_revoked"] = f.clone(), _ => d["requested_predicates"]["p"]["non_revoked"] = f.clone() };
                let res = std::panic::catch_unwind(|| serde_json::from_value::<PresentationRequest>(d.clone()).ok().and_then(|x| serde_json::to_value(&x).ok()));
                let strip = |v: &Value| -> Option<Value> { v.as_object().map(|o| Value::Object(o.iter().filter(|(_, x)| !x.is_null()).map(|(k, x)| (k.clone(), x.clone())).collect())) };
                let (same, o) = match res {
                    Ok(Some(back)) => {
                        let got = match pi { 0 => &back["non_revoked"], 1 => &back["requested_attributes"]["a"]["non_revoked"], _ => &back["requested_predicates"]["p"]["non_revoked"] };
                        (strip(got).is_some() && strip(got) == strip(f), "read")
                    }
                    Ok(None) => (false, "unreadable"),
                    Err(_) => (false, "panic"),
                };
                let id = out.next_id();
                let stage = format!("interval:{}:{}", place, f);
                out.case(
                    &format!("(C15 {} H {} {} {} {} {})", id, sx::s("PresentationRequest"), sx::s(&stage), sx::boolean(same), sx::s("read"), sx::s(o)),
                    "hop:interval-forms",
                    || json!({"type": "PresentationRequest", "place": place, "interval": f, "same_document": same, "outcome": o}),
                );
            }
        }
    }
    // ---------- leaf preservation, every document type ----------
    // every string / number leaf of a valid document is replaced in turn by other values of the same JSON type;
    // when the edited document is still readable, writing it back must give the edited document
    {
        fn leaves(v: &Value, cur: &mut Vec<String>, out: &mut Vec<(Vec<String>, bool)>) {
            match v {
                Value::Object(o) => {
                    for (k, x) in o {
                        cur.push(k.clone());
                        leaves(x, cur, out);
                        cur.pop();
                    }
                }
                Value::Array(a) => {
                    for (i, x) in a.iter().enumerate().take(3) {
                        cur.push(i.to_string());
                        leaves(x, cur, out);
                        cur.pop();
                    }
                }
                Value::String(s) if s.len() < 60 => out.push((cur.clone(), true)),
                Value::Number(_) => out.push((cur.clone(), false)),
                _ => {}
            }
        }
        fn at<'a>(v: &'a mut Value, p: &[String]) -> Option<&'a mut Value> {
            let mut x = v;
            for k in p {
                x = match x {
                    Value::Object(o) => o.get_mut(k)?,
                    Value::Array(a) => a.get_mut(k.parse::<usize>().ok()?)?,
                    _ => return None,
                };
            }
            Some(x)
        }
        type Rt = fn(&Value) -> Option<Value>;
        fn rt<T: Serialize + DeserializeOwned>(d: &Value) -> Option<Value> {
            serde_json::to_value(serde_json::from_value::<T>(d.clone()).ok()?).ok()
        }
        let flow_docs = std::panic::catch_unwind(std::panic::AssertUnwindSafe(|| -> Option<Vec<(&'static str, Rt, Value)>> {
            let offer = issuer::create_credential_offer(cd.schema_id.as_str().try_into().ok()?, cd.cred_def_id.as_str().try_into().ok()?, &cd.kcp).ok()?;
            let (req, md) = prover::create_credential_request(Some("entropy"), None, &cd.cred_def, &ls, "ls", &offer).ok()?;
            let preq = json!({"nonce": "4711", "name": "r", "version": "0.1", "ver": "2.0",
                "requested_attributes": {"a": {"name": "Name", "non_revoked": {"from": 10, "to": 20}, "restrictions": [{"schema_name": "007", "attr::zip code::value": " 7"}]}, "g": {"names": ["age", "Zip Code"]}},
                "requested_predicates": {"p": {"name": "AGE", "p_type": ">=", "p_value": 18, "restrictions": {"$or": [{"cred_def_id": "x"}, {"issuer_id": {"$in": ["1", "01"]}}]}}}, "non_revoked": {"to": 30}});
            Some(vec![
                ("Schema", rt::<Schema> as Rt, serde_json::to_value(&cd.schema).ok()?),
                ("CredentialOffer", rt::<anoncreds::types::CredentialOffer>, serde_json::to_value(&offer).ok()?),
                ("CredentialRequest", rt::<anoncreds::types::CredentialRequest>, serde_json::to_value(&req).ok()?),
                ("CredentialRequestMetadata", rt::<anoncreds::types::CredentialRequestMetadata>, serde_json::to_value(&md).ok()?),
                ("RevocationRegistryDefinition", rt::<RevocationRegistryDefinition>, serde_json::to_value(&reg.def).ok()?),
                ("RevocationStatusList", rt::<RevocationStatusList>, ldoc.clone()),
                ("PresentationRequest", rt::<PresentationRequest>, preq),
            ])
        }));
        let strings = ["00501", "+5", "-0", " 7", "7 ", "Ab C", "1e3", "", "true", "0x10", "Zoë", "2.0"];
        // (among them integers that a 64-bit float cannot hold exactly)
        let numbers = [json!(0), json!(1), json!(2147483648u64), json!(4294967296u64), json!(9007199254740993u64), json!(1700000000123456789u64), json!(18446744073709551614u64), json!(18446744073709551615u64)];
        if let Ok(Some(list)) = flow_docs {
            for (ty, f, doc0) in list.iter() {
                // start from the form the library itself writes (a fixpoint of read-then-write), so that every
                // difference seen below is due to the edited leaf
                let Some(doc) = f(doc0) else { continue };
                if f(&doc).map(normalise) != Some(normalise(doc.clone())) {
                    out.note(format!("leaf preservation: the written form of {} is not a fixpoint of read-then-write; type skipped", ty));
                    continue;
                }
                let doc = &doc;
                let mut ls_: Vec<(Vec<String>, bool)> = vec![];
                leaves(doc, &mut vec![], &mut ls_);
                for (path, is_str) in ls_.iter() {
                    let alts: Vec<Value> = if *is_str { strings.iter().map(|x| json!(x)).collect() } else { numbers.to_vec() };
                    for alt in alts {
                        let mut d = doc.clone();
                        let Some(x) = at(&mut d, path) else { continue };
                        if *x == alt {
                            continue;
                        }
                        *x = alt.clone();
                        let res = std::panic::catch_unwind(|| f(&d));
                        let (same, o) = match res {
                            Ok(Some(back)) => (normalise(back) == normalise(d.clone()), "read"),
                            // a value this field does not admit: nothing to preserve
                            Ok(None) => {
                                out.bump("leaf:refused");
                                continue;
                            }
                            Err(_) => (false, "panic"),
                        };
                        if !same && std::env::var("AVH_DEBUG").is_ok() {
                            eprintln!("LEAFDIFF {} {:?} := {}", ty, path, alt);
                        }
                        let id = out.next_id();
                        let stage = format!("leaf:{}:={}", path.join("/"), alt);
                        out.case(
                            &format!("(C15 {} H {} {} {} {} {})", id, sx::s(ty), sx::s(&stage), sx::boolean(same), sx::s("read"), sx::s(o)),
                            "hop:leaf-preservation",
                            || json!({"type": ty, "path": path, "value": alt, "same_document": same, "outcome": o}),
                        );
                    }
                }
            }
        }
    }
    let _ = std::fs::remove_dir_all(&tails);
    out.finish();
}
