//! C14: legacy and W3C credential forms are interchangeable.
//! Cases: (C14 id T values rest-valid impl)            credential_to_w3c, impl = (ok subject) | (err)
//!        (C14 id F shape-valid subject impl)           credential_from_w3c, impl = (ok values) | (err)
//!        (C14 id RT dir before after ids sig rev v1 v2) round trip through the other form
use crate::out::Out;
use crate::rng::Rng;
use crate::sx;
use crate::vw::{self, World};
use anoncreds::data_types::credential::Credential;
use anoncreds::data_types::w3c::credential::W3CCredential;
use anoncreds::data_types::w3c::VerifiableCredentialSpecVersion;
use anoncreds::types::{CredentialRevocationState, PresentCredentials};
use anoncreds::w3c::credential_conversion::{credential_from_w3c, credential_to_w3c};
use anoncreds::{prover, w3c};
use serde_json::{json, Value};

fn vals_sx(c: &Value) -> String {
    let mut v: Vec<(String, String, String)> = c["values"].as_object().map(|m| m.iter().map(|(k, x)| (k.clone(), x["raw"].as_str().unwrap_or("").to_string(), x["encoded"].as_str().unwrap_or("").to_string())).collect()).unwrap_or_default();
    v.sort();
    sx::list(v.iter(), |(k, r, e)| format!("({} ({} {}))", sx::s(k), sx::s(r), sx::s(e)))
}
fn enc_sx(c: &Value) -> String {
    let mut v: Vec<(String, String)> = c["values"].as_object().map(|m| m.iter().map(|(k, x)| (k.clone(), x["encoded"].as_str().unwrap_or("").to_string())).collect()).unwrap_or_default();
    v.sort();
    sx::list(v.iter(), |(k, e)| format!("({} {})", sx::s(k), sx::s(e)))
}
fn subj_sx(w: &Value) -> String {
    let mut v: Vec<(String, String)> = w["credentialSubject"]
        .as_object()
        .map(|m| {
            m.iter()
                .filter(|(k, _)| k.as_str() != "id")
                .map(|(k, x)| {
                    (
                        k.clone(),
                        match x {
                            Value::String(s) => format!("(s {})", sx::s(s)),
                            Value::Number(n) => format!("(n {})", n),
                            Value::Bool(b) => format!("(b {})", sx::boolean(*b)),
                            _ => "(s x)".into(),
                        },
                    )
                })
                .collect()
        })
        .unwrap_or_default();
    v.sort();
    sx::list(v.iter(), |(k, x)| format!("({} {})", sx::s(k), x))
}

fn present_legacy(w: &World, c: &Credential, ci: usize, st: Option<(&CredentialRevocationState, u64)>) -> &'static str {
    let names: Vec<String> = c.values.0.keys().cloned().collect();
    let mut attrs = serde_json::Map::new();
    for (i, n) in names.iter().enumerate() {
        attrs.insert(format!("a{}", i), json!({"name": n}));
    }
    let mut doc = json!({"nonce": "9988776655", "name": "r", "version": "0.1", "requested_attributes": attrs, "requested_predicates": {}});
    if st.is_some() {
        doc["non_revoked"] = json!({"to": st.unwrap().1});
    }
    let req: anoncreds::data_types::pres_request::PresentationRequest = serde_json::from_value(doc).unwrap();
    let _ = ci;
    let ctx = vw::build_ctx(w, &vw::VCtx::full(w));
    let res = std::panic::catch_unwind(std::panic::AssertUnwindSafe(|| {
        let mut pc = PresentCredentials::default();
        let mut ac = pc.add_credential(c, st.map(|s| s.1), st.map(|s| s.0));
        for i in 0..names.len() {
            ac.add_requested_attribute(format!("a{}", i), true);
        }
        let p = prover::create_presentation(&req, pc, None, &w.holders[0], &w.schemas(), &w.cred_defs())?;
        let p2: anoncreds::data_types::presentation::Presentation = serde_json::from_str(&serde_json::to_string(&p).unwrap()).unwrap();
        anoncreds::verifier::verify_presentation(&p2, &req, &ctx.schemas, &ctx.cred_defs, ctx.reg_defs.as_ref(), ctx.lists.clone(), None)
    }));
    vw::outcome_of(res)
}
fn present_w3c(w: &World, c: &W3CCredential, st: Option<(&CredentialRevocationState, u64)>) -> &'static str {
    let cv = serde_json::to_value(c).unwrap();
    let names: Vec<String> = cv["credentialSubject"].as_object().map(|m| m.keys().filter(|k| k.as_str() != "id").cloned().collect()).unwrap_or_default();
    let mut attrs = serde_json::Map::new();
    for (i, n) in names.iter().enumerate() {
        attrs.insert(format!("a{}", i), json!({"name": n}));
    }
    let mut doc = json!({"nonce": "9988776655", "name": "r", "version": "0.1", "requested_attributes": attrs, "requested_predicates": {}});
    if st.is_some() {
        doc["non_revoked"] = json!({"to": st.unwrap().1});
    }
    let req: anoncreds::data_types::pres_request::PresentationRequest = serde_json::from_value(doc).unwrap();
    let ctx = vw::build_ctx(w, &vw::VCtx::full(w));
    let res = std::panic::catch_unwind(std::panic::AssertUnwindSafe(|| {
        let mut pc = PresentCredentials::default();
        let mut ac = pc.add_credential(c, st.map(|s| s.1), st.map(|s| s.0));
        for i in 0..names.len() {
            ac.add_requested_attribute(format!("a{}", i), true);
        }
        let p = w3c::prover::create_presentation(&req, pc, &w.holders[0], &w.schemas(), &w.cred_defs(), None)?;
        let p2: anoncreds::data_types::w3c::presentation::W3CPresentation = serde_json::from_str(&serde_json::to_string(&p).unwrap()).unwrap();
        let r = w3c::verifier::verify_presentation(&p2, &req, &ctx.schemas, &ctx.cred_defs, ctx.reg_defs.as_ref(), ctx.lists.clone(), None);
        if std::env::var("AVH_DEBUG").is_ok() {
            if let Err(e) = &r {
                eprintln!("W3C verify failed: {} :: subject {}", e, cv["credentialSubject"]);
            }
        }
        r
    }));
    vw::outcome_of(res)
}

pub fn run(tier: &str, seed: u64, outdir: &str) {
    let mut out = Out::new(outdir);
    let mut r = Rng::new(seed ^ 0xC14);
    let thorough = tier == "thorough";
    let w = World::build(outdir);
    // credentials of holder 0 of the world (numeric, padded numeric "007", text) + edge values issued here
    let mut pool: Vec<(Credential, usize, Option<u32>, &'static str)> = vec![];
    for ci in [0usize, 1, 2, 5, 6] {
        pool.push((w.creds[ci].legacy.try_clone().unwrap(), w.creds[ci].cd, w.creds[ci].rev_idx, "world"));
    }
    let edge: Vec<Vec<(&str, &str)>> = vec![
        vec![("name", "Zoë ✓ 日本"), ("age", "-2147483648"), ("sex", ""), ("height", "+7")],
        vec![("name", "2147483648"), ("age", "2147483647"), ("sex", "-0"), ("height", "0042")],
        vec![("name", " 12"), ("age", "1e3"), ("sex", "١٢"), ("height", "-")],
        vec![("name", "true"), ("age", "false"), ("sex", "True"), ("height", "null")],
        // surrounding whitespace (round 10: a conversion that trims the raw value)
        vec![("name", "line one\nline two\n"), ("age", "12 "), ("sex", "\t"), ("height", " x \u{a0}")],
    ];
    for (i, vals) in edge.iter().enumerate() {
        pool.push((vw::issue(&w.cds, 0, &w.holders[0], vals, None), 0, None, "edge-values"));
        let idx = 3 + i as u32;
        pool.push((vw::issue(&w.cds, 1, &w.holders[0], vals, Some((&w.reg, &w.lists[0].list, idx))), 1, Some(idx), "edge-values-revocable"));
    }
    let versions = [None, Some(VerifiableCredentialSpecVersion::V1_1), Some(VerifiableCredentialSpecVersion::V2_0)];

    for (c, cd, rev_idx, class) in pool.iter() {
        let issuer_id: anoncreds::data_types::issuer_id::IssuerId = w.cds[*cd].issuer_id.as_str().try_into().unwrap();
        let cdoc = serde_json::to_value(c).unwrap();
        for ver in versions.iter() {
            // ---- T: legacy -> W3C, valid and invalid rest ----
            for (vname, edit) in [("valid", 0u8), ("registry-id-without-registry-value", 1), ("registry-id-without-witness", 3), ("registry-id-without-registry", 4)] {
                let mut d = cdoc.clone();
                match edit {
                    1 => {
                        if rev_idx.is_some() {
                            d.as_object_mut().unwrap().remove("rev_reg");
                            d.as_object_mut().unwrap().remove("witness");
                        } else {
                            d["rev_reg_id"] = json!(vw::REG_ID);
                        }
                    }
                    3 | 4 => {
                        if rev_idx.is_some() {
                            d.as_object_mut().unwrap().remove(if edit == 3 { "witness" } else { "rev_reg" });
                        } else {
                            continue;
                        }
                    }
                    2 => {
                        if rev_idx.is_some() {
                            d.as_object_mut().unwrap().remove("rev_reg_id");
                        } else {
                            continue;
                        }
                    }
                    _ => {}
                }
                let Ok(c2) = serde_json::from_value::<Credential>(d.clone()) else { continue };
                let res = std::panic::catch_unwind(std::panic::AssertUnwindSafe(|| credential_to_w3c(&c2, &issuer_id, ver.clone())));
                let impl_sx = match &res {
                    Ok(Ok(wc)) => format!("(ok {})", subj_sx(&serde_json::to_value(wc).unwrap())),
                    Ok(Err(_)) => "(err)".to_string(),
                    Err(_) => "(panic)".to_string(),
                };
                let id = out.next_id();
                out.case(&format!("(C14 {} T {} {} {})", id, vals_sx(&d), sx::boolean(edit == 0), impl_sx), &format!("to_w3c:{}:{}", class, vname), || json!({"op": "to_w3c", "class": class, "rest": vname}));
            }
            // ---- RT legacy -> W3C -> legacy ----
            let Ok(wc) = credential_to_w3c(c, &issuer_id, ver.clone()) else { continue };
            // a JSON hop of the W3C form
            let wc: W3CCredential = serde_json::from_str(&serde_json::to_string(&wc).unwrap()).unwrap();
            let Ok(back) = credential_from_w3c(&wc) else {
                let id = out.next_id();
                out.case(&format!("(C14 {} RT L {} () f f f () ())", id, enc_sx(&cdoc)), "roundtrip:legacy-first:refused", || json!({"op": "roundtrip", "refused": true}));
                continue;
            };
            let bdoc = serde_json::to_value(&back).unwrap();
            let same_ids = bdoc["schema_id"] == cdoc["schema_id"] && bdoc["cred_def_id"] == cdoc["cred_def_id"] && bdoc["rev_reg_id"] == cdoc["rev_reg_id"];
            let same_sig = back.signature == c.signature && back.signature_correctness_proof == c.signature_correctness_proof;
            let same_rev = back.rev_reg == c.rev_reg && back.witness == c.witness;
            let st = rev_idx.map(|idx| (prover::create_or_update_revocation_state(&w.tails_path, &w.reg.def, &w.lists[0].list, idx, None, None).unwrap(), w.lists[0].ts));
            let stref = st.as_ref().map(|(s, t)| (s, *t));
            let v1 = present_legacy(&w, &back, *cd, stref);
            let v2 = present_w3c(&w, &wc, stref);
            let id = out.next_id();
            out.case(
                &format!("(C14 {} RT L {} {} {} {} {} ({}) ({}))", id, enc_sx(&cdoc), enc_sx(&bdoc), sx::boolean(same_ids), sx::boolean(same_sig), sx::boolean(same_rev), v1, v2),
                &format!("roundtrip:legacy-first:{}", class),
                || json!({"op": "roundtrip", "dir": "legacy->w3c->legacy", "class": class, "verify_legacy": v1, "verify_w3c": v2}),
            );
            // ---- RT W3C -> legacy -> W3C ----
            if let Ok(wc2) = credential_to_w3c(&back, &issuer_id, ver.clone()) {
                let a = serde_json::to_value(&wc).unwrap();
                let b = serde_json::to_value(&wc2).unwrap();
                let p1 = wc.get_credential_signature_proof().ok().map(|p| serde_json::to_value(p).unwrap());
                let p2 = wc2.get_credential_signature_proof().ok().map(|p| serde_json::to_value(p).unwrap());
                let same_ids = p1.as_ref().map(|p| (&p["schema_id"], &p["cred_def_id"], &p["rev_reg_id"])) == p2.as_ref().map(|p| (&p["schema_id"], &p["cred_def_id"], &p["rev_reg_id"])) && a["issuer"] == b["issuer"];
                let same_sig = p1.as_ref().map(|p| (&p["signature"], &p["signature_correctness_proof"])) == p2.as_ref().map(|p| (&p["signature"], &p["signature_correctness_proof"]));
                let same_rev = p1.as_ref().map(|p| (&p["rev_reg"], &p["witness"])) == p2.as_ref().map(|p| (&p["rev_reg"], &p["witness"]));
                let e1 = credential_from_w3c(&wc).map(|c| enc_sx(&serde_json::to_value(&c).unwrap())).unwrap_or("()".into());
                let e2 = credential_from_w3c(&wc2).map(|c| enc_sx(&serde_json::to_value(&c).unwrap())).unwrap_or("()".into());
                let v2 = present_w3c(&w, &wc2, stref);
                let id = out.next_id();
                out.case(
                    &format!("(C14 {} RT W {} {} {} {} {} () ({}))", id, e1, e2, sx::boolean(same_ids && a["credentialSubject"] == b["credentialSubject"]), sx::boolean(same_sig), sx::boolean(same_rev), v2),
                    &format!("roundtrip:w3c-first:{}", class),
                    || json!({"op": "roundtrip", "dir": "w3c->legacy->w3c", "class": class, "verify_w3c": v2}),
                );
            }
            // ---- F: W3C -> legacy on edited documents ----
            let wdoc = serde_json::to_value(&wc).unwrap();
            let mut edits: Vec<(&str, Box<dyn Fn(&mut Value)>, bool)> = vec![
                ("none", Box::new(|_d: &mut Value| {}), true),
                ("string-that-is-a-number", Box::new(|d: &mut Value| { d["credentialSubject"]["extra"] = json!("0012"); }), true),
                ("number-entry", Box::new(|d: &mut Value| { d["credentialSubject"]["extra"] = json!(-17); }), true),
                ("bool-entry", Box::new(|d: &mut Value| { d["credentialSubject"]["extra"] = json!(true); }), true),
                ("type-without-verifiable-credential", Box::new(|d: &mut Value| { d["type"] = json!(["AnonCredsCredential"]); }), false),
                ("context-without-base", Box::new(|d: &mut Value| { if let Some(a) = d["@context"].as_array_mut() { a.remove(0); } }), false),
                ("context-without-anoncreds-vocabulary", Box::new(|d: &mut Value| { if let Some(a) = d["@context"].as_array_mut() { a.retain(|x| !x.is_object()); } }), false),
                ("foreign-proof-only", Box::new(|d: &mut Value| {
                    d["proof"] = json!({"type": "DataIntegrityProof", "cryptosuite": "eddsa-rdfc-2022", "verificationMethod": "did:web:x#k", "proofPurpose": "assertionMethod", "proofValue": "z3abc"});
                }), false),
                ("foreign-proof-first", Box::new(|d: &mut Value| {
                    let own = match d["proof"].take() { Value::Array(mut a) => a.remove(0), x => x };
                    d["proof"] = json!([{"type": "DataIntegrityProof", "cryptosuite": "eddsa-rdfc-2022", "verificationMethod": "did:web:x#k", "proofPurpose": "assertionMethod", "proofValue": "z3abc"}, own]);
                }), true),
                ("issuance-date-removed", Box::new(|d: &mut Value| { d.as_object_mut().unwrap().remove("issuanceDate"); d.as_object_mut().unwrap().remove("validFrom"); }), true),
                // the date member of the OTHER data model in place of the document's own
                ("issuance-date-replaced-by-other-models-member", Box::new(|d: &mut Value| {
                    let o = d.as_object_mut().unwrap();
                    let had_issuance = o.remove("issuanceDate").is_some();
                    let had_valid_from = o.remove("validFrom").is_some();
                    if had_issuance { o.insert("validFrom".into(), json!("2024-01-01T00:00:00Z")); }
                    if had_valid_from { o.insert("issuanceDate".into(), json!("2024-01-01T00:00:00Z")); }
                }), true),
            ];
            if !thorough {
                r.shuffle(&mut edits[1..]);
                edits.truncate(6);
            }
            for (ename, edit, shape_ok) in edits.iter() {
                let mut d = wdoc.clone();
                edit(&mut d);
                // issuanceDate is required by the 1.1 data model only
                let v11 = d["@context"].as_array().map_or(false, |a| a.iter().any(|x| x.as_str().map_or(false, |s| s.contains("2018/credentials"))));
                let shape = *shape_ok && !((*ename == "issuance-date-removed" || *ename == "issuance-date-replaced-by-other-models-member") && v11);
                let Ok(w2) = serde_json::from_value::<W3CCredential>(d.clone()) else {
                    out.bump(&format!("from_w3c:{}:not-deserialisable", ename));
                    continue;
                };
                let res = std::panic::catch_unwind(std::panic::AssertUnwindSafe(|| credential_from_w3c(&w2)));
                let impl_sx = match &res {
                    Ok(Ok(c2)) => format!("(ok {})", vals_sx(&serde_json::to_value(c2).unwrap())),
                    Ok(Err(_)) => "(err)".to_string(),
                    Err(_) => "(panic)".to_string(),
                };
                let id = out.next_id();
                out.case(&format!("(C14 {} F {} {} {})", id, sx::boolean(shape), subj_sx(&d), impl_sx), &format!("from_w3c:{}", ename), || json!({"op": "from_w3c", "edit": ename}));
            }
        }
    }
    let _ = std::fs::remove_dir_all(format!("{}/tails", outdir));
    out.finish();
}
