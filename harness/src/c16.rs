//! C16: restriction syntax — parse / print / validate on generated JSON values.
use crate::out::Out;
use crate::rng::Rng;
use crate::sx;
use anoncreds::data_types::pres_request::PresentationRequest;
use anoncreds::verif::Query;
use serde_json::{json, Map, Value};

const OPKEYS: [&str; 11] = ["$and", "$or", "$not", "$exist", "$neq", "$gt", "$gte", "$lt", "$lte", "$like", "$in"];
const TAGS: [&str; 9] = ["schema_id", "cred_def_id", "issuer_did", "schema_issuer_did", "rev_reg_id", "schema_name", "attr::name::value", "$foo", ""];
const URI: &str = "did:sov:NcYxiDXkpYi6ov5FcYDi1e";
const LEGACY: &str = "NcYxiDXkpYi6ov5FcYDi1e";

fn leaves() -> Vec<Value> {
    vec![json!(null), json!(true), json!(1), json!(-7), json!(1.5), json!("v"), json!(URI), json!(LEGACY), json!("a:b"), json!(""), json!([]), json!({})]
}

fn parse(v: &Value) -> Result<Query, String> {
    let vv = v.clone();
    match std::panic::catch_unwind(move || serde_json::from_value::<Query>(vv)) {
        Ok(r) => r.map_err(|e| e.to_string()),
        Err(_) => Err("PANIC".into()),
    }
}

fn emit_parse(out: &mut Out, class: &str, v: &Value) {
    let id = out.next_id();
    let r = parse(v);
    let res = match &r {
        Ok(q) => {
            let j2 = serde_json::to_value(q).unwrap();
            let q2 = parse(&j2);
            let text = serde_json::to_string(q).unwrap();
            let q3: Result<Query, _> = serde_json::from_str(&text);
            let rt = q2.as_ref().ok() == Some(q) && q3.as_ref().ok() == Some(q) && q.to_string() == text;
            format!("(ok {} {} {})", sx::query(q), sx::json(&j2), sx::boolean(rt))
        }
        Err(e) if e == "PANIC" => "(panic)".to_string(),
        Err(_) => "(err)".to_string(),
    };
    let line = format!("(C16 {} P {} {})", id, sx::json(v), res);
    let shown = v.to_string();
    let okv = r.is_ok();
    out.case(&line, class, || json!({"kind": "parse", "json": shown, "impl_ok": okv}));
    // validation of a request embedding this restriction, both versions and no version
    if let Ok(q) = &r {
        for (ver, v1) in [(Some("1.0"), true), (Some("2.0"), false), (None, true)] {
            for on_pred in [false, true] {
                let mut req = json!({"nonce": "123432421212", "name": "n", "version": "0.1",
                    "requested_attributes": {}, "requested_predicates": {}});
                if on_pred {
                    req["requested_predicates"]["p"] = json!({"name": "age", "p_type": ">=", "p_value": 18, "restrictions": v});
                } else {
                    req["requested_attributes"]["a"] = json!({"name": "x", "restrictions": v});
                }
                if let Some(ver) = ver {
                    req["ver"] = json!(ver);
                }
                let pr: Result<PresentationRequest, _> = serde_json::from_value(req.clone());
                let vres = match pr {
                    Ok(pr) => {
                        use anoncreds::data_types::pres_request::PresentationRequest as PR;
                        // the restriction the request carries must be the one parsed alone
                        let carried = match &pr {
                            PR::PresentationRequestV1(p) | PR::PresentationRequestV2(p) => {
                                if on_pred { p.requested_predicates["p"].restrictions.clone() } else { p.requested_attributes["a"].restrictions.clone() }
                            }
                        };
                        let is_v1 = matches!(pr, PR::PresentationRequestV1(_));
                        let same = carried.as_ref() == Some(q) && is_v1 == v1;
                        // serde round trip of the whole request keeps the restriction and the version
                        let back: Result<PresentationRequest, _> = serde_json::from_value(serde_json::to_value(&pr).unwrap());
                        let rt = back.as_ref().ok() == Some(&pr);
                        match validate(&pr) {
                            Ok(()) => format!("(valid {} {})", sx::boolean(same), sx::boolean(rt)),
                            Err(()) => format!("(invalid {} {})", sx::boolean(same), sx::boolean(rt)),
                        }
                    }
                    Err(_) => "(deser-err)".to_string(),
                };
                let id = out.next_id();
                let line = format!("(C16 {} V {} {} {})", id, sx::boolean(v1), sx::query(q), vres);
                let shown = req.to_string();
                out.case(&line, if v1 { "validate:v1" } else { "validate:v2" }, || json!({"kind": "validate", "request": shown}));
            }
        }
    }
}

fn validate(pr: &PresentationRequest) -> Result<(), ()> {
    use anoncreds::verif::Validatable;
    pr.validate().map_err(|_| ())
}

fn rand_value(rng: &mut Rng, depth: u32) -> Value {
    let lv = leaves();
    if depth == 0 || rng.chance(1, 4) {
        return rng.pick(&lv).clone();
    }
    match rng.below(6) {
        0 => {
            let n = rng.below(4);
            Value::Array((0..n).map(|_| rand_value(rng, depth - 1)).collect())
        }
        _ => rand_object(rng, depth),
    }
}

fn rand_object(rng: &mut Rng, depth: u32) -> Value {
    let mut m = Map::new();
    let n = match rng.below(10) {
        0 => 0,
        1..=6 => 1,
        7..=8 => 2,
        _ => 3,
    };
    for _ in 0..n {
        let k = if rng.chance(1, 2) { *rng.pick(&OPKEYS) } else { *rng.pick(&TAGS) };
        let v = match k {
            "$and" | "$or" => {
                if rng.chance(5, 6) {
                    let n = rng.below(4);
                    Value::Array((0..n).map(|_| if rng.chance(7, 8) { rand_object(rng, depth.saturating_sub(1)) } else { rand_value(rng, 0) }).collect())
                } else {
                    rand_value(rng, depth.saturating_sub(1))
                }
            }
            "$not" => if rng.chance(5, 6) { rand_object(rng, depth.saturating_sub(1)) } else { rand_value(rng, 0) },
            "$exist" => match rng.below(4) {
                0 => json!("k"),
                1 => json!(["k", "l"]),
                2 => json!([]),
                _ => rand_value(rng, 1),
            },
            _ => match rng.below(6) {
                0 | 1 => json!(*rng.pick(&["v", URI, LEGACY, "", "a:b"])),
                2 | 3 => {
                    let op = *rng.pick(&OPKEYS);
                    let operand = match rng.below(4) {
                        0 | 1 => json!(*rng.pick(&["v", URI, LEGACY])),
                        2 => json!(["v", URI]),
                        _ => rand_value(rng, 1),
                    };
                    json!({ op: operand })
                }
                _ => rand_value(rng, depth.saturating_sub(1)),
            },
        };
        m.insert(k.to_string(), v);
    }
    Value::Object(m)
}

pub fn run(tier: &str, seed: u64, outdir: &str) {
    let thorough = tier == "thorough";
    let mut out = Out::new(outdir);
    let mut rng = Rng::new(seed ^ 0xC16);
    let lv = leaves();

    // corpus: forms named by the property and by the suite
    let corpus = vec![
        json!({}), json!([]), json!([{}]), json!([{}, {}]), json!({"$or": []}), json!({"$and": []}), json!({"$exist": []}),
        json!([{"schema_id": null, "cred_def_id": null}]),
        json!([{"schema_id": "s", "cred_def_id": null}, {"issuer_did": LEGACY}]),
        json!([{"schema_id": "s"}, 1]), json!([[{"schema_id": "s"}]]), json!([null]),
        json!({"$not": {}}), json!({"$not": {"$not": {"a": "b"}}}), json!({"$and": [{}]}), json!({"$or": [{}, {}]}),
        json!({"a": {"$in": []}}), json!({"a": {"$in": ["x"]}}), json!({"a": {"$in": "x"}}), json!({"a": {"$in": [1]}}),
        json!({"a": {"$neq": "x", "$gt": "y"}}), json!({"a": {"$foo": "x"}}), json!({"a": {}}), json!({"a": 1}), json!({"a": null}),
        json!({"$and": {"a": "b"}}), json!({"$or": "x"}), json!({"$not": [{"a": "b"}]}), json!({"$exist": 1}), json!({"$exist": ["a", 1]}),
        json!({"$and": [{"a": "b"}, 1]}), json!({"$neq": "x"}), json!({"$in": ["x"]}), json!({"$like": {"$like": "x"}}),
        json!({"schema_id": URI}), json!({"schema_id": {"$in": [LEGACY, URI]}}), json!({"$not": {"cred_def_id": {"$neq": URI}}}),
        json!({"$or": [{"$and": [{"issuer_did": URI}]}]}), json!({"$exist": ["schema_id"]}), json!({"schema_name": URI}),
        json!("str"), json!(1), json!(null), json!(true),
        json!({"a": "b", "c": "d"}), json!({"$and": [{"a": "b"}], "$or": [{"c": "d"}], "e": "f"}),
        // lists of three and more (round 10: a printer that keeps the first two names of `$exist`)
        json!({"$exist": ["a", "b", "c"]}), json!({"$exist": ["a", "b", "c", "d", "e"]}),
        json!({"$or": [{"$not": {"$exist": ["w", "x", "y", "z"]}}, {"a": "b"}]}),
        json!({"a": {"$in": ["x", "y", "z"]}}), json!({"a": {"$in": ["p", "q", "r", "s", "t"]}}),
        json!({"$and": [{"a": "1"}, {"b": "2"}, {"c": "3"}, {"d": "4"}]}), json!({"$or": [{"a": "1"}, {"b": "2"}, {"c": "3"}]}),
        json!({"$not": {"$and": [{"a": {"$in": ["x", "y", "z"]}}, {"$exist": ["a", "b", "c"]}, {"$or": [{"a": "1"}, {"b": "2"}, {"c": "3"}]}]}}),
        json!([{"a": "1"}, {"b": "2"}, {"c": "3"}, {"d": "4"}]),
    ];
    for v in &corpus {
        emit_parse(&mut out, "corpus", v);
    }

    // exhaustive: single-key objects to nesting depth 2 over the whole vocabulary
    let keys: Vec<&str> = OPKEYS.iter().chain(TAGS.iter()).cloned().collect();
    // two-key objects over the whole vocabulary (round 10: a multi-key operator object accepted when all
    // members but one are null), at the top and as the operand of a tag
    let two: Vec<Value> = vec![json!(null), json!("v"), json!(1), json!({}), json!(["x"])];
    for k1 in &keys {
        for k2 in keys.iter().chain(["$bogus", "zz"].iter()) {
            if k1 == k2 { continue; }
            for l1 in &two {
                for l2 in &two {
                    emit_parse(&mut out, "exhaustive:two-keys", &json!({ *k1: l1, *k2: l2 }));
                    emit_parse(&mut out, "exhaustive:two-keys-operand", &json!({ "a": { *k1: l1, *k2: l2 } }));
                }
            }
        }
    }
    let mut level1: Vec<Value> = lv.clone();
    for k in &keys {
        for l in &lv {
            level1.push(json!({ *k: l }));
        }
    }
    for l in &lv {
        level1.push(json!([l]));
        level1.push(json!([l, {"a": "b"}]));
    }
    for k in &keys {
        for v in &level1 {
            emit_parse(&mut out, "exhaustive:depth2", &json!({ *k: v }));
            if *k == "$and" || *k == "$or" || *k == "$in" || *k == "$exist" {
                emit_parse(&mut out, "exhaustive:depth2-array", &json!({ *k: [v] }));
                emit_parse(&mut out, "exhaustive:depth2-array", &json!({ *k: [{"a": "b"}, v] }));
            }
        }
    }
    // legacy list form: all lists of up to 2 elements over level-0/1 filters
    let filters: Vec<Value> = vec![json!({}), json!({"a": null}), json!({"a": "b"}), json!({"a": "b", "c": null}), json!({"$or": []}),
        json!({"a": {"$neq": "x"}}), json!({"a": 1}), json!(1), json!(null), json!([]), json!({"$not": {"a": "b"}}), json!({"schema_id": URI})];
    for a in &filters {
        emit_parse(&mut out, "exhaustive:legacy-list", &json!([a]));
        for b in &filters {
            emit_parse(&mut out, "exhaustive:legacy-list", &json!([a, b]));
        }
    }
    if thorough {
        // depth 3: wrap every depth-2 single-key object under $not / $and / $or and a tag
        for k in &keys {
            for v in &level1 {
                let inner = json!({ *k: v });
                emit_parse(&mut out, "exhaustive:depth3", &json!({ "$not": inner }));
                emit_parse(&mut out, "exhaustive:depth3", &json!({ "$and": [inner, {"a": "b"}] }));
                emit_parse(&mut out, "exhaustive:depth3", &json!({ "$or": [inner] }));
                emit_parse(&mut out, "exhaustive:depth3", &json!({ "tag": inner }));
                emit_parse(&mut out, "exhaustive:depth3", &json!([inner, {}]));
            }
        }
    }
    // random deeper values
    let n = if thorough { 60_000 } else { 3_000 };
    for _ in 0..n {
        let d = 1 + rng.below(4) as u32;
        let v = if rng.chance(1, 8) {
            let k = rng.below(4);
            Value::Array((0..k).map(|_| rand_value(&mut rng, d)).collect())
        } else {
            rand_object(&mut rng, d)
        };
        emit_parse(&mut out, "random", &v);
    }
    out.finish();
}
