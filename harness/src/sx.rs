//! S-expression emitters for the abstract case format (see coq/theories/Model/Sexp.v).
//! Strings are hex-encoded inside atoms with prefix "x"; numbers are decimal atoms.
use std::fmt::Write;

pub fn s(x: &str) -> String {
    b(x.as_bytes())
}
pub fn b(x: &[u8]) -> String {
    let mut o = String::with_capacity(1 + 2 * x.len());
    o.push('x');
    for c in x {
        let _ = write!(o, "{:02x}", c);
    }
    o
}
pub fn n<T: std::fmt::Display>(x: T) -> String {
    format!("{}", x)
}
pub fn boolean(x: bool) -> String {
    if x { "t".into() } else { "f".into() }
}
pub fn l(items: &[String]) -> String {
    let mut o = String::from("(");
    for (i, it) in items.iter().enumerate() {
        if i > 0 {
            o.push(' ');
        }
        o.push_str(it);
    }
    o.push(')');
    o
}
pub fn opt<T>(x: Option<T>, f: impl Fn(T) -> String) -> String {
    match x {
        None => "()".into(),
        Some(v) => format!("({})", f(v)),
    }
}
pub fn list<T>(xs: impl IntoIterator<Item = T>, f: impl Fn(T) -> String) -> String {
    let v: Vec<String> = xs.into_iter().map(f).collect();
    l(&v)
}
