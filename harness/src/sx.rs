//! S-expression emitters for the abstract case format (see coq/theories/Model/Sexp.v).
//! Strings are hex-encoded inside atoms with prefix "x"; numbers are decimal atoms.
use std::fmt::Write;

pub fn s(x: &str) -> String {
    b(x.as_bytes())
}
pub fn b(x: &[u8]) -> String {
    let mut o = String::with_capacity(1 + 2 * x.len());
    o.push('x');
    for c in x {
        let _ = write!(o, "{:02x}", c);
    }
    o
}
pub fn n<T: std::fmt::Display>(x: T) -> String {
    format!("{}", x)
}
pub fn boolean(x: bool) -> String {
    if x { "t".into() } else { "f".into() }
}
pub fn l(items: &[String]) -> String {
    let mut o = String::from("(");
    for (i, it) in items.iter().enumerate() {
        if i > 0 {
            o.push(' ');
        }
        o.push_str(it);
    }
    o.push(')');
    o
}
pub fn opt<T>(x: Option<T>, f: impl Fn(T) -> String) -> String {
    match x {
        None => "()".into(),
        Some(v) => format!("({})", f(v)),
    }
}
pub fn list<T>(xs: impl IntoIterator<Item = T>, f: impl Fn(T) -> String) -> String {
    let v: Vec<String> = xs.into_iter().map(f).collect();
    l(&v)
}

/// serde_json::Value -> case format of Model/Json.v
pub fn json(v: &serde_json::Value) -> String {
    use serde_json::Value::*;
    match v {
        Null => "(n)".into(),
        Bool(b) => format!("(b {})", boolean(*b)),
        Number(x) => {
            if let Some(i) = x.as_i64() {
                format!("(i {})", i)
            } else if let Some(u) = x.as_u64() {
                format!("(i {})", u)
            } else {
                "(f)".into()
            }
        }
        String(st) => format!("(s {})", s(st)),
        Array(a) => {
            let mut o = std::string::String::from("(a");
            for x in a {
                o.push(' ');
                o.push_str(&json(x));
            }
            o.push(')');
            o
        }
        Object(m) => {
            let mut o = std::string::String::from("(o");
            for (k, x) in m {
                o.push_str(" (");
                o.push_str(&s(k));
                o.push(' ');
                o.push_str(&json(x));
                o.push(')');
            }
            o.push(')');
            o
        }
    }
}

/// Query -> case format of Model/Query.v dec_query
pub fn query(q: &anoncreds::verif::Query) -> String {
    use anoncreds::verif::AbstractQuery::*;
    match q {
        And(l) => format!("(and{})", l.iter().map(|x| format!(" {}", query(x))).collect::<std::string::String>()),
        Or(l) => format!("(or{})", l.iter().map(|x| format!(" {}", query(x))).collect::<std::string::String>()),
        Not(x) => format!("(not {})", query(x)),
        Eq(k, v) => format!("(eq {} {})", s(k), s(v)),
        Neq(k, v) => format!("(neq {} {})", s(k), s(v)),
        Gt(k, v) => format!("(gt {} {})", s(k), s(v)),
        Gte(k, v) => format!("(gte {} {})", s(k), s(v)),
        Lt(k, v) => format!("(lt {} {})", s(k), s(v)),
        Lte(k, v) => format!("(lte {} {})", s(k), s(v)),
        Like(k, v) => format!("(like {} {})", s(k), s(v)),
        In(k, vs) => format!("(in {} {})", s(k), list(vs.iter(), |x| s(x))),
        Exist(ks) => format!("(exist {})", list(ks.iter(), |x| s(x))),
    }
}
