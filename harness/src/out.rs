//! Case sink: one abstract case per line + run metadata (histograms, samples).
use serde_json::{json, Value};
use std::collections::BTreeMap;
use std::fs::File;
use std::io::{BufWriter, Write};

pub struct Out {
    w: BufWriter<File>,
    dir: String,
    pub count: u64,
    hist: BTreeMap<String, u64>,
    samples: Vec<Value>,
    sample_every: u64,
    notes: Vec<String>,
    extra: BTreeMap<String, Value>,
}

impl Out {
    pub fn new(dir: &str) -> Self {
        std::fs::create_dir_all(dir).unwrap();
        let f = File::create(format!("{}/cases.sexp", dir)).unwrap();
        Out {
            w: BufWriter::new(f),
            dir: dir.to_string(),
            count: 0,
            hist: BTreeMap::new(),
            samples: vec![],
            sample_every: 1,
            notes: vec![],
            extra: BTreeMap::new(),
        }
    }
    /// `line` is the full s-expression; `class` feeds the input-distribution histogram;
    /// `human` is a readable rendering kept for a few cases as evidence samples.
    pub fn case(&mut self, line: &str, class: &str, human: impl FnOnce() -> Value) {
        self.w.write_all(line.as_bytes()).unwrap();
        self.w.write_all(b"\n").unwrap();
        self.count += 1;
        *self.hist.entry(class.to_string()).or_insert(0) += 1;
        if self.count % self.sample_every == 0 && self.samples.len() < 6 {
            self.samples.push(human());
            self.sample_every *= 7;
        }
    }
    pub fn next_id(&self) -> u64 {
        self.count
    }
    pub fn bump(&mut self, class: &str) {
        *self.hist.entry(class.to_string()).or_insert(0) += 1;
    }
    pub fn note(&mut self, s: String) {
        self.notes.push(s);
    }
    pub fn extra(&mut self, k: &str, v: Value) {
        self.extra.insert(k.to_string(), v);
    }
    pub fn finish(mut self) {
        self.w.flush().unwrap();
        let meta = json!({
            "cases": self.count,
            "histogram": self.hist,
            "samples": self.samples,
            "notes": self.notes,
            "extra": self.extra,
        });
        std::fs::write(format!("{}/meta.json", self.dir), serde_json::to_vec_pretty(&meta).unwrap()).unwrap();
    }
}
