//! C17: the C ABI is a faithful, panic-free image of the native API.
//! (A) faithfulness: the same inputs driven natively and through the exported C functions
//!     (deterministic operations: identical documents; decisions: equal; objects made on one side
//!     accepted by the other).  Case: (C17 id A <what> <equal>)
//! (B) malformed arguments, each in a CHILD PROCESS (a crash must not take the harness down):
//!     null result pointers with otherwise valid arguments, mismatched list lengths, stale and
//!     wrong-typed handles (mandatory, optional and inside lists).
//!     Case: (C17 id B <test> <kind> <rc or crash> <message retrievable>)
use crate::out::Out;
use crate::sx;
use crate::vcases::ReqSpec;
use crate::vw::{self, Pick, World};
use ffi_support::ByteBuffer;
use serde_json::{json, Value};
use std::ffi::{c_void, CStr, CString};
use std::os::raw::c_char;

#[repr(C)]
pub struct FfiList<T> {
    count: usize,
    data: *const T,
}
impl<T> FfiList<T> {
    fn of(v: &[T]) -> Self {
        FfiList { count: v.len(), data: if v.is_empty() { std::ptr::null() } else { v.as_ptr() } }
    }
    fn empty() -> Self {
        FfiList { count: 0, data: std::ptr::null() }
    }
}
#[repr(C)]
pub struct FfiCredentialEntry {
    credential: usize,
    timestamp: i32,
    rev_state: usize,
}
#[repr(C)]
pub struct FfiCredentialProve {
    entry_idx: i64,
    referent: *const c_char,
    is_predicate: i8,
    reveal: i8,
}
#[repr(C)]
pub struct FfiOverride {
    rev_reg_def_id: *const c_char,
    requested_from_ts: i32,
    override_ts: i32,
}

extern "C" {
    fn anoncreds_create_schema(name: *const c_char, version: *const c_char, issuer: *const c_char, attrs: FfiList<*const c_char>, result_p: *mut usize) -> usize;
    fn anoncreds_encode_credential_attributes(vals: FfiList<*const c_char>, result_p: *mut *const c_char) -> usize;
    fn anoncreds_object_get_json(handle: usize, result_p: *mut ByteBuffer) -> usize;
    fn anoncreds_object_get_type_name(handle: usize, result_p: *mut *const c_char) -> usize;
    fn anoncreds_object_free(handle: usize);
    fn anoncreds_buffer_free(buffer: ByteBuffer);
    fn anoncreds_string_free(s: *mut c_char);
    fn anoncreds_get_current_error(p: *mut *const c_char) -> usize;
    fn anoncreds_generate_nonce(p: *mut *const c_char) -> usize;
    fn anoncreds_schema_from_json(json: ByteBuffer, result_p: *mut usize) -> usize;
    fn anoncreds_credential_definition_from_json(json: ByteBuffer, result_p: *mut usize) -> usize;
    fn anoncreds_credential_from_json(json: ByteBuffer, result_p: *mut usize) -> usize;
    fn anoncreds_credential_request_metadata_from_json(json: ByteBuffer, result_p: *mut usize) -> usize;
    fn anoncreds_presentation_from_json(json: ByteBuffer, result_p: *mut usize) -> usize;
    fn anoncreds_presentation_request_from_json(json: ByteBuffer, result_p: *mut usize) -> usize;
    fn anoncreds_revocation_registry_definition_from_json(json: ByteBuffer, result_p: *mut usize) -> usize;
    fn anoncreds_revocation_status_list_from_json(json: ByteBuffer, result_p: *mut usize) -> usize;
    fn anoncreds_revocation_state_from_json(json: ByteBuffer, result_p: *mut usize) -> usize;
    fn anoncreds_w3c_presentation_from_json(json: ByteBuffer, result_p: *mut usize) -> usize;
    fn anoncreds_key_correctness_proof_from_json(json: ByteBuffer, result_p: *mut usize) -> usize;
    fn anoncreds_create_credential_offer(schema_id: *const c_char, cred_def_id: *const c_char, kcp: usize, result_p: *mut usize) -> usize;
    fn anoncreds_credential_definition_private_from_json(json: ByteBuffer, result_p: *mut usize) -> usize;
    fn anoncreds_revocation_registry_definition_private_from_json(json: ByteBuffer, result_p: *mut usize) -> usize;
    fn anoncreds_w3c_credential_from_json(json: ByteBuffer, result_p: *mut usize) -> usize;
    fn anoncreds_credential_get_attribute(handle: usize, name: *const c_char, result_p: *mut *const c_char) -> usize;
    fn anoncreds_revocation_registry_definition_get_attribute(handle: usize, name: *const c_char, result_p: *mut *const c_char) -> usize;
    fn anoncreds_credential_to_w3c(cred: usize, issuer_id: *const c_char, version: *const c_char, result_p: *mut usize) -> usize;
    fn anoncreds_credential_from_w3c(cred: usize, result_p: *mut usize) -> usize;
    fn anoncreds_w3c_credential_get_integrity_proof_details(handle: usize, result_p: *mut usize) -> usize;
    fn anoncreds_w3c_credential_proof_get_attribute(handle: usize, name: *const c_char, result_p: *mut *const c_char) -> usize;
    fn anoncreds_update_revocation_status_list(cred_def: usize, reg_def: usize, reg_priv: usize, current: usize, issued: FfiList<i32>, revoked: FfiList<i32>, timestamp: i64, result_p: *mut usize) -> usize;
    fn anoncreds_create_revocation_status_list(cred_def: usize, reg_def_id: *const c_char, reg_def: usize, reg_priv: usize, issuer_id: *const c_char, by_default: i8, timestamp: i64, result_p: *mut usize) -> usize;
    fn anoncreds_create_revocation_registry_def(cred_def: usize, cred_def_id: *const c_char, issuer_id: *const c_char, tag: *const c_char, rev_reg_type: *const c_char, max_cred_num: i64, tails_dir: *const c_char, reg_def_p: *mut usize, reg_priv_p: *mut usize) -> usize;
    fn anoncreds_credential_offer_from_json(json: ByteBuffer, result_p: *mut usize) -> usize;
    fn anoncreds_create_or_update_revocation_state(reg_def: usize, list: usize, idx: i64, tails_path: *const c_char, old_state: usize, old_list: usize, result_p: *mut usize) -> usize;
    fn anoncreds_credential_request_from_json(json: ByteBuffer, result_p: *mut usize) -> usize;
    fn anoncreds_create_credential(cred_def: usize, cred_def_private: usize, offer: usize, request: usize, names: FfiList<*const c_char>, raws: FfiList<*const c_char>, encs: FfiList<*const c_char>, revocation: *const c_void, result_p: *mut usize) -> usize;
    fn anoncreds_process_credential(cred: usize, md: usize, link_secret: *const c_char, cred_def: usize, rev_reg_def: usize, result_p: *mut usize) -> usize;
    fn anoncreds_create_credential_request(entropy: *const c_char, prover_did: *const c_char, cred_def: usize, link_secret: *const c_char, link_secret_id: *const c_char, offer: usize, req_p: *mut usize, meta_p: *mut usize) -> usize;
    fn anoncreds_process_w3c_credential(cred: usize, md: usize, link_secret: *const c_char, cred_def: usize, rev_reg_def: usize, result_p: *mut usize) -> usize;
    fn anoncreds_update_revocation_status_list_timestamp_only(timestamp: i64, list: usize, result_p: *mut usize) -> usize;
    fn anoncreds_create_presentation(
        pres_req: usize, credentials: FfiList<FfiCredentialEntry>, prove: FfiList<FfiCredentialProve>, sa_names: FfiList<*const c_char>, sa_values: FfiList<*const c_char>,
        link_secret: *const c_char, schemas: FfiList<usize>, schema_ids: FfiList<*const c_char>, cred_defs: FfiList<usize>, cred_def_ids: FfiList<*const c_char>, result_p: *mut usize,
    ) -> usize;
    fn anoncreds_verify_presentation(
        presentation: usize, pres_req: usize, schemas: FfiList<usize>, schema_ids: FfiList<*const c_char>, cred_defs: FfiList<usize>, cred_def_ids: FfiList<*const c_char>,
        rev_reg_defs: FfiList<usize>, rev_reg_def_ids: FfiList<*const c_char>, lists: FfiList<usize>, ovr: FfiList<FfiOverride>, result_p: *mut i8,
    ) -> usize;
    fn anoncreds_verify_w3c_presentation(
        presentation: usize, pres_req: usize, schemas: FfiList<usize>, schema_ids: FfiList<*const c_char>, cred_defs: FfiList<usize>, cred_def_ids: FfiList<*const c_char>,
        rev_reg_defs: FfiList<usize>, rev_reg_def_ids: FfiList<*const c_char>, lists: FfiList<usize>, ovr: FfiList<FfiOverride>, result_p: *mut i8,
    ) -> usize;
}

fn buf(v: &Value) -> ByteBuffer {
    ByteBuffer::from_vec(serde_json::to_vec(v).unwrap())
}
fn cs(s: &str) -> CString {
    CString::new(s).unwrap()
}
fn get_json(h: usize) -> Option<Value> {
    let mut b = ByteBuffer::default();
    let rc = unsafe { anoncreds_object_get_json(h, &mut b) };
    if rc != 0 {
        return None;
    }
    let v = serde_json::from_slice(b.as_slice()).ok();
    unsafe { anoncreds_buffer_free(b) };
    v
}
fn last_error() -> Option<String> {
    let mut p: *const c_char = std::ptr::null();
    let rc = unsafe { anoncreds_get_current_error(&mut p) };
    if rc != 0 || p.is_null() {
        return None;
    }
    let s = unsafe { CStr::from_ptr(p) }.to_string_lossy().to_string();
    unsafe { anoncreds_string_free(p as *mut c_char) };
    Some(s)
}

/// the documents a child needs, written once by the parent
fn world_docs(w: &World) -> Value {
    let req = ReqSpec::new("80081").attr("a", "name").pred("p", "age", ">=", 18).build().unwrap();
    let (pres, _, _) = vw::make_legacy(w, &req, &[Pick { cred: 0, attrs: vec![("a".into(), true)], preds: vec!["p".into()], list: None, inc: false }], &[], 0).unwrap();
    let (wpres, _, _) = vw::make_w3c(w, &req, &[Pick { cred: 0, attrs: vec![("a".into(), true)], preds: vec!["p".into()], list: None, inc: false }], 0).unwrap();
    let rreq = ReqSpec::new("80082").attr("a", "name").global((None, Some(150))).build().unwrap();
    let (rpres, _, _) = vw::make_legacy(w, &rreq, &[Pick { cred: 1, attrs: vec![("a".into(), true)], preds: vec![], list: Some(0), inc: false }], &[], 0).unwrap();
    let ls: String = w.holders[0].try_clone().unwrap().try_into().unwrap();
    json!({
        "schema0": serde_json::to_value(&w.cds[0].schema).unwrap(), "schema_id0": w.cds[0].schema_id,
        "cred_def0": serde_json::to_value(&w.cds[0].cred_def).unwrap(), "cred_def_id0": w.cds[0].cred_def_id,
        "cred_def1": serde_json::to_value(&w.cds[1].cred_def).unwrap(), "cred_def_id1": w.cds[1].cred_def_id,
        "kcp0": serde_json::to_value(&w.cds[0].kcp).unwrap(),
        "reg_def": serde_json::to_value(&w.reg.def).unwrap(), "reg_id": vw::REG_ID,
        "list0": serde_json::to_value(&w.lists[0].list).unwrap(),
        "state10": serde_json::to_value(w.states.get(&(1, 0)).unwrap()).unwrap(),
        "cred0": serde_json::to_value(&w.creds[0].legacy).unwrap(), "cred1": serde_json::to_value(&w.creds[1].legacy).unwrap(),
        "w3c_cred0": serde_json::to_value(&w.creds[0].w3c).unwrap(),
        "request": serde_json::to_value(&req).unwrap(), "presentation": serde_json::to_value(&pres).unwrap(), "w3c_presentation": serde_json::to_value(&wpres).unwrap(),
        "rrequest": serde_json::to_value(&rreq).unwrap(), "rpresentation": serde_json::to_value(&rpres).unwrap(),
        "link_secret": ls,
        "tails_path": w.tails_path,
    })
}

struct Loaded {
    d: Value,
    schema: usize,
    cred_def0: usize,
    cred_def1: usize,
    reg_def: usize,
    list0: usize,
    state10: usize,
    cred0: usize,
    cred1: usize,
    request: usize,
    presentation: usize,
    w3c_presentation: usize,
    rrequest: usize,
    rpresentation: usize,
    kcp0: usize,
}
fn load(d: Value) -> Loaded {
    let mk = |f: unsafe extern "C" fn(ByteBuffer, *mut usize) -> usize, v: &Value| -> usize {
        let mut h = 0usize;
        let rc = unsafe { f(buf(v), &mut h) };
        assert_eq!(rc, 0, "world document not accepted by the C ABI: {:?}", last_error());
        h
    };
    Loaded {
        schema: mk(anoncreds_schema_from_json, &d["schema0"]),
        cred_def0: mk(anoncreds_credential_definition_from_json, &d["cred_def0"]),
        cred_def1: mk(anoncreds_credential_definition_from_json, &d["cred_def1"]),
        reg_def: mk(anoncreds_revocation_registry_definition_from_json, &d["reg_def"]),
        list0: mk(anoncreds_revocation_status_list_from_json, &d["list0"]),
        state10: mk(anoncreds_revocation_state_from_json, &d["state10"]),
        cred0: mk(anoncreds_credential_from_json, &d["cred0"]),
        cred1: mk(anoncreds_credential_from_json, &d["cred1"]),
        request: mk(anoncreds_presentation_request_from_json, &d["request"]),
        presentation: mk(anoncreds_presentation_from_json, &d["presentation"]),
        w3c_presentation: mk(anoncreds_w3c_presentation_from_json, &d["w3c_presentation"]),
        rrequest: mk(anoncreds_presentation_request_from_json, &d["rrequest"]),
        rpresentation: mk(anoncreds_presentation_from_json, &d["rpresentation"]),
        kcp0: mk(anoncreds_key_correctness_proof_from_json, &d["kcp0"]),
        d,
    }
}

/// verify through the C ABI; `out` may be null; extra knobs for malformed variants
#[allow(clippy::too_many_arguments)]
fn ffi_verify(l: &Loaded, w3c: bool, pres: usize, req: usize, schemas: &[usize], schema_ids: &[&str], cred_defs: &[usize], cred_def_ids: &[&str], reg_defs: &[usize], reg_ids: &[&str], lists: &[usize], out: *mut i8) -> usize {
    let _ = l;
    let sid: Vec<CString> = schema_ids.iter().map(|s| cs(s)).collect();
    let sidp: Vec<*const c_char> = sid.iter().map(|c| c.as_ptr()).collect();
    let cid: Vec<CString> = cred_def_ids.iter().map(|s| cs(s)).collect();
    let cidp: Vec<*const c_char> = cid.iter().map(|c| c.as_ptr()).collect();
    let rid: Vec<CString> = reg_ids.iter().map(|s| cs(s)).collect();
    let ridp: Vec<*const c_char> = rid.iter().map(|c| c.as_ptr()).collect();
    unsafe {
        if w3c {
            anoncreds_verify_w3c_presentation(pres, req, FfiList::of(schemas), FfiList::of(&sidp), FfiList::of(cred_defs), FfiList::of(&cidp), FfiList::of(reg_defs), FfiList::of(&ridp), FfiList::of(lists), FfiList::empty(), out)
        } else {
            anoncreds_verify_presentation(pres, req, FfiList::of(schemas), FfiList::of(&sidp), FfiList::of(cred_defs), FfiList::of(&cidp), FfiList::of(reg_defs), FfiList::of(&ridp), FfiList::of(lists), FfiList::empty(), out)
        }
    }
}

/// legacy verification of a revocable presentation through the C ABI with a list of interval overrides
fn ffi_verify_with_overrides(l: &Loaded, pres: usize, req: usize, sid: &str, cid: &str, ovr: &[(&str, i32, i32)], out: *mut i8) -> usize {
    let (s, c, r) = (cs(sid), cs(cid), cs(vw::REG_ID));
    let ids: Vec<CString> = ovr.iter().map(|(id, _, _)| cs(id)).collect();
    let entries: Vec<FfiOverride> = ovr.iter().zip(ids.iter()).map(|((_, a, b), id)| FfiOverride { rev_reg_def_id: id.as_ptr(), requested_from_ts: *a, override_ts: *b }).collect();
    unsafe {
        anoncreds_verify_presentation(pres, req, FfiList::of(&[l.schema]), FfiList::of(&[s.as_ptr()]), FfiList::of(&[l.cred_def1]), FfiList::of(&[c.as_ptr()]),
            FfiList::of(&[l.reg_def]), FfiList::of(&[r.as_ptr()]), FfiList::of(&[l.list0]), FfiList::of(&entries), out)
    }
}

/// create a presentation of the revocable credential through the C ABI with the given timestamp
fn ffi_present_revocable(l: &Loaded, ts: i32, rev_state: usize, out: *mut usize, sa_names: usize, sa_values: usize) -> usize {
    let entry = [FfiCredentialEntry { credential: l.cred1, timestamp: ts, rev_state }];
    let r = cs("a");
    let prove = [FfiCredentialProve { entry_idx: 0, referent: r.as_ptr(), is_predicate: 0, reveal: 1 }];
    let ls = cs(l.d["link_secret"].as_str().unwrap());
    let sid = cs(l.d["schema_id0"].as_str().unwrap());
    let cid = cs(l.d["cred_def_id1"].as_str().unwrap());
    let x = cs("x");
    let names: Vec<*const c_char> = (0..sa_names).map(|_| x.as_ptr()).collect();
    let values: Vec<*const c_char> = (0..sa_values).map(|_| x.as_ptr()).collect();
    unsafe {
        anoncreds_create_presentation(
            l.rrequest, FfiList::of(&entry), FfiList::of(&prove), FfiList::of(&names), FfiList::of(&values), ls.as_ptr(),
            FfiList::of(&[l.schema]), FfiList::of(&[sid.as_ptr()]), FfiList::of(&[l.cred_def1]), FfiList::of(&[cid.as_ptr()]), out,
        )
    }
}

const TESTS: [(&str, &str); 38] = [
    ("nulldata:encode", "null-data-list"),
    ("nulldata:create_schema", "null-data-list"),
    ("handle:process-w3c-optional-rev-reg-def-stale", "stale-handle"),
    ("handle:process-w3c-optional-rev-reg-def-wrong-type", "wrong-typed-handle"),
    ("handle:revocation-state-optional-old-state-stale", "stale-handle"),
    ("handle:revocation-state-optional-old-state-wrong-type", "wrong-typed-handle"),
    ("handle:revocation-state-optional-old-list-stale", "stale-handle"),
    ("handle:revocation-state-optional-old-list-wrong-type", "wrong-typed-handle"),
    ("null-out:verify_presentation", "null-result-pointer"),
    ("null-out:verify_w3c_presentation", "null-result-pointer"),
    ("null-out:encode_credential_attributes", "null-result-pointer"),
    ("null-out:get_current_error", "null-result-pointer"),
    ("null-out:create_schema", "null-result-pointer"),
    ("null-out:object_get_json", "null-result-pointer"),
    ("null-out:object_get_type_name", "null-result-pointer"),
    ("null-out:schema_from_json", "null-result-pointer"),
    ("null-out:create_credential_offer", "null-result-pointer"),
    ("null-out:generate_nonce", "null-result-pointer"),
    ("null-out:update_status_list_timestamp_only", "null-result-pointer"),
    ("null-out:create_presentation", "null-result-pointer"),
    ("null-out:process_credential", "null-result-pointer"),
    ("lengths:verify-schemas-vs-ids", "mismatched-list-lengths"),
    ("lengths:verify-cred-defs-vs-ids", "mismatched-list-lengths"),
    ("lengths:verify-reg-defs-vs-ids", "mismatched-list-lengths"),
    ("lengths:present-self-attested", "mismatched-list-lengths"),
    ("handle:verify-presentation-wrong-type", "wrong-typed-handle"),
    ("handle:verify-request-stale", "stale-handle"),
    ("handle:verify-schema-in-list-stale", "stale-handle"),
    ("handle:verify-cred-def-in-list-wrong-type", "wrong-typed-handle"),
    ("handle:verify-status-list-in-list-wrong-type", "wrong-typed-handle"),
    ("handle:verify-status-list-in-list-stale", "stale-handle"),
    ("handle:get_json-stale", "stale-handle"),
    ("handle:get_json-never-issued", "stale-handle"),
    ("handle:timestamp_only-wrong-type", "wrong-typed-handle"),
    ("handle:process-optional-rev-reg-def-stale", "stale-handle"),
    ("handle:process-optional-rev-reg-def-wrong-type", "wrong-typed-handle"),
    ("handle:present-optional-rev-state-stale", "stale-handle"),
    ("handle:offer-kcp-wrong-type", "wrong-typed-handle"),
];

/// one malformed call; prints "RC <code> MSG <0|1>"
pub fn child(args: &[String]) {
    let test = args[0].as_str();
    let d: Value = serde_json::from_slice(&std::fs::read(&args[1]).unwrap()).unwrap();
    let l = load(d);
    let sid = l.d["schema_id0"].as_str().unwrap().to_string();
    let cid0 = l.d["cred_def_id0"].as_str().unwrap().to_string();
    let cid1 = l.d["cred_def_id1"].as_str().unwrap().to_string();
    let rid = l.d["reg_id"].as_str().unwrap().to_string();
    let mut stale = 0usize;
    unsafe {
        anoncreds_schema_from_json(buf(&l.d["schema0"]), &mut stale);
        anoncreds_object_free(stale);
    }
    let null8: *mut i8 = std::ptr::null_mut();
    let nullh: *mut usize = std::ptr::null_mut();
    let mut ok8: i8 = -1;
    let mut okh: usize = 0;
    let _ = last_error(); // clear
    let rc: usize = match test {
        "null-out:verify_presentation" => ffi_verify(&l, false, l.presentation, l.request, &[l.schema], &[&sid], &[l.cred_def0], &[&cid0], &[], &[], &[], null8),
        "null-out:verify_w3c_presentation" => ffi_verify(&l, true, l.w3c_presentation, l.request, &[l.schema], &[&sid], &[l.cred_def0], &[&cid0], &[], &[], &[], null8),
        "null-out:encode_credential_attributes" => {
            let a = cs("Alex");
            unsafe { anoncreds_encode_credential_attributes(FfiList::of(&[a.as_ptr()]), std::ptr::null_mut()) }
        }
        "null-out:get_current_error" => unsafe { anoncreds_get_current_error(std::ptr::null_mut()) },
        "null-out:create_schema" => {
            let (n, v, i, a) = (cs("s"), cs("1.0"), cs("did:web:x"), cs("name"));
            unsafe { anoncreds_create_schema(n.as_ptr(), v.as_ptr(), i.as_ptr(), FfiList::of(&[a.as_ptr()]), nullh) }
        }
        "null-out:object_get_json" => unsafe { anoncreds_object_get_json(l.schema, std::ptr::null_mut()) },
        "null-out:object_get_type_name" => unsafe { anoncreds_object_get_type_name(l.schema, std::ptr::null_mut()) },
        "null-out:schema_from_json" => unsafe { anoncreds_schema_from_json(buf(&l.d["schema0"]), nullh) },
        "null-out:create_credential_offer" => {
            let (s, c) = (cs(&sid), cs(&cid0));
            unsafe { anoncreds_create_credential_offer(s.as_ptr(), c.as_ptr(), l.kcp0, nullh) }
        }
        "null-out:generate_nonce" => unsafe { anoncreds_generate_nonce(std::ptr::null_mut()) },
        "null-out:update_status_list_timestamp_only" => unsafe { anoncreds_update_revocation_status_list_timestamp_only(5, l.list0, nullh) },
        "null-out:create_presentation" => ffi_present_revocable(&l, 100, l.state10, nullh, 0, 0),
        "null-out:process_credential" => {
            let ls = cs(l.d["link_secret"].as_str().unwrap());
            unsafe { anoncreds_process_credential(l.cred0, 0, ls.as_ptr(), l.cred_def0, 0, nullh) }
        }
        "lengths:verify-schemas-vs-ids" => ffi_verify(&l, false, l.presentation, l.request, &[l.schema], &[], &[l.cred_def0], &[&cid0], &[], &[], &[], &mut ok8),
        "lengths:verify-cred-defs-vs-ids" => ffi_verify(&l, false, l.presentation, l.request, &[l.schema], &[&sid], &[l.cred_def0], &[&cid0, &cid1], &[], &[], &[], &mut ok8),
        "lengths:verify-reg-defs-vs-ids" => ffi_verify(&l, false, l.presentation, l.request, &[l.schema], &[&sid], &[l.cred_def0], &[&cid0], &[l.reg_def], &[], &[], &mut ok8),
        "lengths:present-self-attested" => ffi_present_revocable(&l, 100, l.state10, &mut okh, 2, 1),
        "handle:verify-presentation-wrong-type" => ffi_verify(&l, false, l.schema, l.request, &[l.schema], &[&sid], &[l.cred_def0], &[&cid0], &[], &[], &[], &mut ok8),
        "handle:verify-request-stale" => ffi_verify(&l, false, l.presentation, stale, &[l.schema], &[&sid], &[l.cred_def0], &[&cid0], &[], &[], &[], &mut ok8),
        "handle:verify-schema-in-list-stale" => ffi_verify(&l, false, l.presentation, l.request, &[stale], &[&sid], &[l.cred_def0], &[&cid0], &[], &[], &[], &mut ok8),
        "handle:verify-cred-def-in-list-wrong-type" => ffi_verify(&l, false, l.presentation, l.request, &[l.schema], &[&sid], &[l.schema], &[&cid0], &[], &[], &[], &mut ok8),
        // the presentation needs no status list, so only the handle check can refuse these two
        "handle:verify-status-list-in-list-wrong-type" => ffi_verify(&l, false, l.presentation, l.request, &[l.schema], &[&sid], &[l.cred_def0], &[&cid0], &[l.reg_def], &[&rid], &[l.schema], &mut ok8),
        "handle:verify-status-list-in-list-stale" => ffi_verify(&l, false, l.presentation, l.request, &[l.schema], &[&sid], &[l.cred_def0], &[&cid0], &[l.reg_def], &[&rid], &[stale], &mut ok8),
        "handle:get_json-stale" => {
            let mut b = ByteBuffer::default();
            unsafe { anoncreds_object_get_json(stale, &mut b) }
        }
        "handle:get_json-never-issued" => {
            let mut b = ByteBuffer::default();
            unsafe { anoncreds_object_get_json(987_654_321, &mut b) }
        }
        "handle:timestamp_only-wrong-type" => unsafe { anoncreds_update_revocation_status_list_timestamp_only(5, l.schema, &mut okh) },
        "handle:process-optional-rev-reg-def-stale" | "handle:process-optional-rev-reg-def-wrong-type" => {
            // a credential that processes fine when the optional registry definition is absent
            let ls = cs(l.d["link_secret"].as_str().unwrap());
            let md = json!({"link_secret_blinding_data": {"v_prime": "1", "vr_prime": null}, "nonce": "1", "link_secret_name": "ls"});
            let mut mdh = 0usize;
            unsafe { anoncreds_credential_request_metadata_from_json(buf(&md), &mut mdh) };
            let opt = if test.ends_with("stale") { stale } else { l.schema };
            // with the optional argument absent the call gets as far as the signature check (an error of
            // its own); what matters here is that a stale / wrong-typed optional handle is reported as such
            let rc = unsafe { anoncreds_process_credential(l.cred0, mdh, ls.as_ptr(), l.cred_def0, opt, &mut okh) };
            let msg = last_error().unwrap_or_default();
            println!("RC {} MSG {} HANDLEMSG {}", rc, if msg.is_empty() { 0 } else { 1 }, if msg.contains("nvalid object handle") || msg.contains("Expected") { 1 } else { 0 });
            return;
        }
        "handle:process-w3c-optional-rev-reg-def-stale" | "handle:process-w3c-optional-rev-reg-def-wrong-type" => {
            let ls = cs(l.d["link_secret"].as_str().unwrap());
            let md = json!({"link_secret_blinding_data": {"v_prime": "1", "vr_prime": null}, "nonce": "1", "link_secret_name": "ls"});
            let (mut mdh, mut wch) = (0usize, 0usize);
            unsafe {
                anoncreds_credential_request_metadata_from_json(buf(&md), &mut mdh);
                anoncreds_w3c_credential_from_json(buf(&l.d["w3c_cred0"]), &mut wch);
            }
            let opt = if test.ends_with("stale") { stale } else { l.schema };
            let rc = unsafe { anoncreds_process_w3c_credential(wch, mdh, ls.as_ptr(), l.cred_def0, opt, &mut okh) };
            let msg = last_error().unwrap_or_default();
            println!("RC {} MSG {} HANDLEMSG {}", rc, if msg.is_empty() { 0 } else { 1 }, if msg.contains("nvalid object handle") || msg.contains("Expected") { 1 } else { 0 });
            return;
        }
        t if t.starts_with("handle:revocation-state-optional-") => {
            let tp = cs(l.d["tails_path"].as_str().unwrap_or(""));
            let bad = if t.ends_with("stale") { stale } else { l.schema };
            let (old_state, old_list) = if t.contains("old-state") { (bad, l.list0) } else { (l.state10, bad) };
            let rc = unsafe { anoncreds_create_or_update_revocation_state(l.reg_def, l.list0, 1, tp.as_ptr(), old_state, old_list, &mut okh) };
            let msg = last_error().unwrap_or_default();
            println!("RC {} MSG {} HANDLEMSG {}", rc, if msg.is_empty() { 0 } else { 1 }, if msg.contains("nvalid object handle") || msg.contains("Expected") { 1 } else { 0 });
            return;
        }
        // a list whose data pointer is null is an empty list, whatever its count says
        "nulldata:encode" => {
            let mut p: *const c_char = std::ptr::null();
            unsafe { anoncreds_encode_credential_attributes(FfiList { count: 1, data: std::ptr::null() }, &mut p) }
        }
        "nulldata:create_schema" => {
            let (n, v, i) = (cs("gvt"), cs("1.0"), cs("did:web:x"));
            unsafe { anoncreds_create_schema(n.as_ptr(), v.as_ptr(), i.as_ptr(), FfiList { count: 2, data: std::ptr::null() }, &mut okh) }
        }
        "handle:present-optional-rev-state-stale" => ffi_present_revocable(&l, 100, stale, &mut okh, 0, 0),
        "handle:offer-kcp-wrong-type" => {
            let (s, c) = (cs(&sid), cs(&cid0));
            unsafe { anoncreds_create_credential_offer(s.as_ptr(), c.as_ptr(), l.schema, &mut okh) }
        }
        _ => 9999,
    };
    let msg = if test == "null-out:get_current_error" { Some(String::new()) } else { last_error() };
    println!("RC {} MSG {} HANDLEMSG 1", rc, if msg.map_or(false, |m| m.contains("message") || m.is_empty()) { 1 } else { 0 });
}

pub fn run(tier: &str, _seed: u64, outdir: &str) {
    let mut out = Out::new(outdir);
    let _ = tier;
    let w = World::build(outdir);
    let docs = world_docs(&w);
    let docs_path = format!("{}/c17-docs.json", outdir);
    std::fs::write(&docs_path, serde_json::to_vec(&docs).unwrap()).unwrap();
    let l = load(docs.clone());

    // ---------- (A) faithfulness ----------
    let mut a = |what: &str, equal: bool, out: &mut Out| {
        let id = out.next_id();
        out.case(&format!("(C17 {} A {} {})", id, sx::s(what), sx::boolean(equal)), &format!("faithful:{}", what.split(':').next().unwrap_or("")), || json!({"what": what, "equal": equal}));
    };
    // deterministic: create_schema
    for (name, ver, issuer, attrs) in [("gvt", "1.0", "did:web:x", vec!["name", "age"]), ("g", "2", "NcYxiDXkpYi6ov5FcYDi1e", vec!["Zip Code"]), ("bad", "1.0", "did:web:x", vec![]), ("bad-issuer", "1.0", "not an id", vec!["a"])] {
        let native = anoncreds::issuer::create_schema(name, ver, issuer.try_into().unwrap_or_else(|_| anoncreds::data_types::issuer_id::IssuerId::new_unchecked("x")), anoncreds::data_types::schema::AttributeNames::from(attrs.iter().map(|s| s.to_string()).collect::<Vec<_>>()));
        let native_issuer_ok = anoncreds::data_types::issuer_id::IssuerId::new(issuer).is_ok();
        let (n, v, i) = (cs(name), cs(ver), cs(issuer));
        let ac: Vec<CString> = attrs.iter().map(|x| cs(x)).collect();
        let ap: Vec<*const c_char> = ac.iter().map(|c| c.as_ptr()).collect();
        let mut h = 0usize;
        let rc = unsafe { anoncreds_create_schema(n.as_ptr(), v.as_ptr(), i.as_ptr(), FfiList::of(&ap), &mut h) };
        let equal = match (native_issuer_ok, native) {
            (true, Ok(s)) => rc == 0 && get_json(h) == Some(serde_json::to_value(&s).unwrap()),
            _ => rc != 0,
        };
        a(&format!("create_schema:{}", name), equal, &mut out);
    }
    // deterministic: attribute encoding
    for vals in [vec!["Alex", "28", "007", "-5", "", "Zoë ✓"], vec!["2147483648", "+1", " 1"], vec![]] {
        let native: Vec<String> = vals.iter().map(|v| { let mut m = anoncreds::types::MakeCredentialValues::default(); m.add_raw("x", *v).unwrap(); let cv: anoncreds::types::CredentialValues = m.into(); cv.0["x"].encoded.clone() }).collect();
        let cv: Vec<CString> = vals.iter().map(|x| cs(x)).collect();
        let cp: Vec<*const c_char> = cv.iter().map(|c| c.as_ptr()).collect();
        let mut p: *const c_char = std::ptr::null();
        let rc = unsafe { anoncreds_encode_credential_attributes(FfiList::of(&cp), &mut p) };
        let got = if rc == 0 && !p.is_null() { unsafe { CStr::from_ptr(p) }.to_string_lossy().to_string() } else { "<err>".into() };
        a(&format!("encode:{}", vals.len()), got == native.join(","), &mut out);
    }
    // every object type: the C ABI's document is the native document
    for (k, h) in [("schema0", l.schema), ("cred_def0", l.cred_def0), ("reg_def", l.reg_def), ("list0", l.list0), ("state10", l.state10), ("cred1", l.cred1), ("request", l.request), ("presentation", l.presentation), ("w3c_presentation", l.w3c_presentation)] {
        // documents compared as in C15: JSON values, msgpack proof values after decoding
        a(&format!("json-roundtrip:{}", k), get_json(h).map(crate::c15::normalise) == Some(crate::c15::normalise(docs[k].clone())), &mut out);
    }
    // decisions: verification of the same presentations, native and through the C ABI (honest and tampered)
    let ctx = vw::build_ctx(&w, &vw::VCtx::full(&w));
    let sid = w.cds[0].schema_id.clone();
    let (cid0, cid1) = (w.cds[0].cred_def_id.clone(), w.cds[1].cred_def_id.clone());
    for (name, pdoc, rdoc, revocable, w3c) in [("legacy", &docs["presentation"], &docs["request"], false, false), ("w3c", &docs["w3c_presentation"], &docs["request"], false, true), ("legacy-revocable", &docs["rpresentation"], &docs["rrequest"], true, false)] {
        for tamper in [false, true] {
            let mut pd = pdoc.clone();
            if tamper {
                if w3c {
                    pd["verifiableCredential"][0]["credentialSubject"]["name"] = json!("Mallory");
                } else {
                    pd["requested_proof"]["revealed_attrs"]["a"]["encoded"] = json!("1234");
                }
            }
            let req: anoncreds::data_types::pres_request::PresentationRequest = serde_json::from_value(rdoc.clone()).unwrap();
            let native = if w3c {
                serde_json::from_value::<anoncreds::data_types::w3c::presentation::W3CPresentation>(pd.clone()).ok().map(|p| vw::verify_w3c(&p, &req, &ctx))
            } else {
                serde_json::from_value::<anoncreds::data_types::presentation::Presentation>(pd.clone()).ok().map(|p| vw::verify_legacy(&p, &req, &ctx))
            };
            let mut ph = 0usize;
            let rc0 = unsafe { if w3c { anoncreds_w3c_presentation_from_json(buf(&pd), &mut ph) } else { anoncreds_presentation_from_json(buf(&pd), &mut ph) } };
            let mut rh = 0usize;
            unsafe { anoncreds_presentation_request_from_json(buf(rdoc), &mut rh) };
            let mut res: i8 = -1;
            let cd = if revocable { l.cred_def1 } else { l.cred_def0 };
            let cid = if revocable { &cid1 } else { &cid0 };
            let (rd, ri, ll): (Vec<usize>, Vec<&str>, Vec<usize>) = if revocable { (vec![l.reg_def], vec![vw::REG_ID], vec![l.list0]) } else { (vec![], vec![], vec![]) };
            let rc = if rc0 == 0 { ffi_verify(&l, w3c, ph, rh, &[l.schema], &[&sid], &[cd], &[cid], &rd, &ri, &ll, &mut res) } else { 1 };
            let ffi = if rc != 0 { "err" } else if res == 1 { "accept" } else { "reject" };
            a(&format!("verify:{}:{}", name, if tamper { "tampered" } else { "honest" }), native == Some(ffi), &mut out);
        }
    }
    // a presentation created through the C ABI (timestamps 100 and, on a list stamped 0, 0) is accepted natively
    for ts in [100i32, 0] {
        let (list_doc, list_h, state_h): (Value, usize, usize) = if ts == 100 {
            (docs["list0"].clone(), l.list0, l.state10)
        } else {
            let mut lh = 0usize;
            unsafe { anoncreds_update_revocation_status_list_timestamp_only(0, l.list0, &mut lh) };
            let ld = get_json(lh).unwrap_or(Value::Null);
            let list: anoncreds::types::RevocationStatusList = serde_json::from_value(ld.clone()).unwrap();
            let st = anoncreds::prover::create_or_update_revocation_state(&w.tails_path, &w.reg.def, &list, 1, None, None).unwrap();
            let mut sh = 0usize;
            unsafe { anoncreds_revocation_state_from_json(buf(&serde_json::to_value(&st).unwrap()), &mut sh) };
            (ld, lh, sh)
        };
        let _ = list_h;
        let mut ph = 0usize;
        // the request of this flow allows any timestamp up to 150
        let rc = ffi_present_revocable(&l, ts, state_h, &mut ph, 0, 0);
        let native_ok = (|| {
            let p: anoncreds::data_types::presentation::Presentation = serde_json::from_value(get_json(ph)?).ok()?;
            let req: anoncreds::data_types::pres_request::PresentationRequest = serde_json::from_value(docs["rrequest"].clone()).ok()?;
            let list: anoncreds::types::RevocationStatusList = serde_json::from_value(list_doc.clone()).ok()?;
            anoncreds::verifier::verify_presentation(&p, &req, &ctx.schemas, &ctx.cred_defs, ctx.reg_defs.as_ref(), Some(vec![list]), None).ok()
        })();
        a(&format!("present-through-c-abi:timestamp-{}", ts), rc == 0 && native_ok == Some(true), &mut out);
    }

    // issuance through the C ABI: names / raw values / OPTIONAL encoded values are three index-aligned lists; a null or
    // missing encoded value means "encode the raw value"
    {
        let c0 = &w.cds[0];
        let mut cdp = 0usize;
        unsafe { anoncreds_credential_definition_private_from_json(buf(&serde_json::to_value(&c0.cred_def_priv).unwrap()), &mut cdp) };
        let (sidc, cidc) = (cs(&c0.schema_id), cs(&c0.cred_def_id));
        let mut offer_h = 0usize;
        unsafe { anoncreds_create_credential_offer(sidc.as_ptr(), cidc.as_ptr(), l.kcp0, &mut offer_h) };
        let offer: Option<anoncreds::types::CredentialOffer> = get_json(offer_h).and_then(|v| serde_json::from_value(v).ok());
        let names = ["name", "age", "sex", "height"];
        let raws = ["Alex", "28", "male", "175"];
        let mut e_cases: Vec<String> = vec![];
        let variants: Vec<(&str, Vec<Option<&str>>)> = vec![
            ("no-list", vec![]), ("full", vec![Some("11"), Some("28"), Some("33"), Some("175")]), ("all-null", vec![None, None, None, None]),
            ("null-first", vec![None, Some("28"), Some("33"), Some("175")]), ("null-middle", vec![Some("11"), None, Some("33"), Some("175")]),
            ("null-then-value-then-null", vec![None, Some("28"), None, Some("175")]), ("two-nulls-first", vec![None, None, Some("33"), Some("175")]),
            ("short", vec![Some("11"), Some("28")]), ("short-with-null", vec![None, Some("28")]), ("null-last", vec![Some("11"), Some("28"), Some("33"), None]),
        ];
        for (vname, encs) in variants.iter() {
            let equal = (|| -> Option<bool> {
                let offer = offer.as_ref()?;
                let (req, _md) = anoncreds::prover::create_credential_request(Some("entropy"), None, &c0.cred_def, &w.holders[0], "ls", offer).ok()?;
                let mut req_h = 0usize;
                if unsafe { anoncreds_credential_request_from_json(buf(&serde_json::to_value(&req).ok()?), &mut req_h) } != 0 {
                    return Some(false);
                }
                // native: the documented rule
                let mut mv = anoncreds::types::MakeCredentialValues::default();
                for (i, (n, r)) in names.iter().zip(raws.iter()).enumerate() {
                    match encs.get(i).cloned().flatten() {
                        Some(e) => mv.add_encoded(*n, *r, e.to_string()),
                        None => mv.add_raw(*n, *r).ok()?,
                    }
                }
                let native_values: anoncreds::types::CredentialValues = mv.into();
                let native = anoncreds::issuer::create_credential(&c0.cred_def, &c0.cred_def_priv, offer, &req, native_values, None).ok()?;
                let nc: Vec<CString> = names.iter().map(|x| cs(x)).collect();
                let np: Vec<*const c_char> = nc.iter().map(|c| c.as_ptr()).collect();
                let rc_: Vec<CString> = raws.iter().map(|x| cs(x)).collect();
                let rp: Vec<*const c_char> = rc_.iter().map(|c| c.as_ptr()).collect();
                let ec: Vec<Option<CString>> = encs.iter().map(|x| x.map(cs)).collect();
                let ep: Vec<*const c_char> = ec.iter().map(|c| c.as_ref().map(|c| c.as_ptr()).unwrap_or(std::ptr::null())).collect();
                let mut ch = 0usize;
                let rc = unsafe { anoncreds_create_credential(l.cred_def0, cdp, offer_h, req_h, FfiList::of(&np), FfiList::of(&rp), FfiList::of(&ep), std::ptr::null(), &mut ch) };
                if rc != 0 {
                    return Some(false);
                }
                let got = get_json(ch)?;
                // the same call judged by the marshalling rule of the model (Model/Ffi.v enc_values_call)
                let mut triples: Vec<(String, String, String)> = got["values"].as_object()?.iter().map(|(k, v)| (k.clone(), v["raw"].as_str().unwrap_or("").to_string(), v["encoded"].as_str().unwrap_or("").to_string())).collect();
                triples.sort();
                e_cases.push(format!("E {} {} {} (ok {})", sx::list(names.iter(), |x| sx::s(x)), sx::list(raws.iter(), |x| sx::s(x)), sx::list(encs.iter(), |x| sx::opt(*x, |y| sx::s(y))),
                    sx::list(triples.iter(), |(n, r, e)| format!("({} {} {})", sx::s(n), sx::s(r), sx::s(e)))));
                Some(got["values"] == serde_json::to_value(&native).ok()?["values"])
            })();
            a(&format!("create_credential:encoded-values-{}", vname), equal == Some(true), &mut out);
        }
        // calls the rule refuses: no attribute at all; fewer raw values than names
        for (ns, rs) in [(vec![], vec![]), (vec!["name", "age", "sex", "height"], vec!["Alex", "28", "male"])] {
            let r = (|| -> Option<usize> {
                let offer = offer.as_ref()?;
                let (req, _md) = anoncreds::prover::create_credential_request(Some("entropy"), None, &c0.cred_def, &w.holders[0], "ls", offer).ok()?;
                let mut req_h = 0usize;
                unsafe { anoncreds_credential_request_from_json(buf(&serde_json::to_value(&req).ok()?), &mut req_h) };
                let nc: Vec<CString> = ns.iter().map(|x| cs(x)).collect();
                let np: Vec<*const c_char> = nc.iter().map(|c| c.as_ptr()).collect();
                let rc_: Vec<CString> = rs.iter().map(|x| cs(x)).collect();
                let rp: Vec<*const c_char> = rc_.iter().map(|c| c.as_ptr()).collect();
                let mut ch = 0usize;
                Some(unsafe { anoncreds_create_credential(l.cred_def0, cdp, offer_h, req_h, FfiList::of(&np), FfiList::of(&rp), FfiList::empty(), std::ptr::null(), &mut ch) })
            })();
            if let Some(rc) = r {
                e_cases.push(format!("E {} {} () {}", sx::list(ns.iter(), |x| sx::s(x)), sx::list(rs.iter(), |x| sx::s(x)), if rc == 0 { "(ok ())" } else { "(err)" }));
            }
        }
        for body in e_cases.drain(..) {
            let id = out.next_id();
            out.case(&format!("(C17 {} {})", id, body), "marshalling:encoded-values", || json!({"what": "encoded values rule"}));
        }
    }
    // accessors, conversions and revocation operations: the C ABI answers what the native API answers
    {
        // (rc, Some(string) | None for a null result)
        let get_attr = |f: unsafe extern "C" fn(usize, *const c_char, *mut *const c_char) -> usize, h: usize, name: &str| -> (usize, Option<String>) {
            let n = cs(name);
            let mut p: *const c_char = std::ptr::null();
            let rc = unsafe { f(h, n.as_ptr(), &mut p) };
            (rc, if rc == 0 && !p.is_null() { Some(unsafe { CStr::from_ptr(p) }.to_string_lossy().to_string()) } else { None })
        };
        for (cname, h, doc) in [("cred0", l.cred0, &docs["cred0"]), ("cred1", l.cred1, &docs["cred1"])] {
            let native: anoncreds::types::Credential = serde_json::from_value(doc.clone()).unwrap();
            let expect: Vec<(&str, Option<Option<String>>)> = vec![
                ("schema_id", Some(Some(native.schema_id.to_string()))), ("cred_def_id", Some(Some(native.cred_def_id.to_string()))),
                ("rev_reg_id", Some(native.rev_reg_id.as_ref().map(|x| x.to_string()))),
                ("rev_reg_index", Some(doc["signature"]["r_credential"]["i"].as_u64().map(|i| i.to_string()))),
                ("values", None), ("", None),
            ];
            for (n, e) in expect {
                let (rc, got) = get_attr(anoncreds_credential_get_attribute, h, n);
                let equal = match e { Some(v) => rc == 0 && got == v, None => rc != 0 };
                a(&format!("credential_get_attribute:{}:{}", cname, if n.is_empty() { "empty" } else { n }), equal, &mut out);
            }
        }
        for (n, e) in [("max_cred_num", Some(w.reg.def.value.max_cred_num.to_string())), ("tails_hash", Some(w.reg.def.value.tails_hash.to_string())), ("tails_location", Some(w.reg.def.value.tails_location.to_string())), ("id", None)] {
            let (rc, got) = get_attr(anoncreds_revocation_registry_definition_get_attribute, l.reg_def, n);
            a(&format!("reg_def_get_attribute:{}", n), match e { Some(v) => rc == 0 && got == Some(v), None => rc != 0 }, &mut out);
        }
        // legacy <-> W3C through the C ABI
        for (cname, h, doc, cdi) in [("cred0", l.cred0, &docs["cred0"], 0usize), ("cred1", l.cred1, &docs["cred1"], 1usize)] {
            let native: anoncreds::types::Credential = serde_json::from_value(doc.clone()).unwrap();
            let issuer = w.cds[cdi].issuer_id.clone();
            for ver in [None, Some("1.1"), Some("2.0"), Some("3.0")] {
                let nat = ver.map_or(Ok(None), |v| anoncreds::data_types::w3c::VerifiableCredentialSpecVersion::try_from(v).map(Some))
                    .ok().and_then(|v| anoncreds::w3c::credential_conversion::credential_to_w3c(&native, &issuer.as_str().try_into().unwrap(), v).ok());
                let (ic, vc) = (cs(&issuer), ver.map(cs));
                let mut wh = 0usize;
                let rc = unsafe { anoncreds_credential_to_w3c(h, ic.as_ptr(), vc.as_ref().map_or(std::ptr::null(), |c| c.as_ptr()), &mut wh) };
                let equal = match &nat {
                    // the issuance date is the time of the call
                    Some(n) => {
                        let undated = |mut v: Value| { if let Some(o) = v.as_object_mut() { o.remove("issuanceDate"); o.remove("validFrom"); } crate::c15::normalise(v) };
                        rc == 0 && get_json(wh).map(undated) == Some(undated(serde_json::to_value(n).unwrap()))
                    }
                    None => rc != 0,
                };
                a(&format!("credential_to_w3c:{}:{}", cname, ver.unwrap_or("default")), equal, &mut out);
                if let (Some(n), 0) = (&nat, rc) {
                    let back = anoncreds::w3c::credential_conversion::credential_from_w3c(n).ok();
                    let mut bh = 0usize;
                    let rc2 = unsafe { anoncreds_credential_from_w3c(wh, &mut bh) };
                    a(&format!("credential_from_w3c:{}:{}", cname, ver.unwrap_or("default")), match back { Some(b) => rc2 == 0 && get_json(bh) == Some(serde_json::to_value(&b).unwrap()), None => rc2 != 0 }, &mut out);
                    // proof details of the W3C form
                    let mut dh = 0usize;
                    let rc3 = unsafe { anoncreds_w3c_credential_get_integrity_proof_details(wh, &mut dh) };
                    for (an, e) in [("schema_id", Some(Some(native.schema_id.to_string()))), ("cred_def_id", Some(Some(native.cred_def_id.to_string()))),
                                    ("rev_reg_id", Some(native.rev_reg_id.as_ref().map(|x| x.to_string()))), ("rev_reg_index", Some(doc["signature"]["r_credential"]["i"].as_u64().map(|i| i.to_string()))),
                                    ("timestamp", Some(None)), ("nonce", None)] {
                        let (rc4, got) = get_attr(anoncreds_w3c_credential_proof_get_attribute, dh, an);
                        a(&format!("w3c_proof_get_attribute:{}:{}", cname, an), rc3 == 0 && match e { Some(v) => rc4 == 0 && got == v, None => rc4 != 0 }, &mut out);
                    }
                }
            }
        }
        // an issuer id that is no identifier is refused by the conversion, as natively
        for bad in ["bob", "", "not an id", "did:"] {
            let native_ok = anoncreds::data_types::issuer_id::IssuerId::new(bad).is_ok();
            let ic = cs(bad);
            let mut wh = 0usize;
            let rc = unsafe { anoncreds_credential_to_w3c(l.cred0, ic.as_ptr(), std::ptr::null(), &mut wh) };
            let issuer_ok = rc != 0 || get_json(wh).map(|v| anoncreds::data_types::issuer_id::IssuerId::new(v["issuer"].as_str().unwrap_or("")).is_ok()).unwrap_or(false);
            a(&format!("credential_to_w3c:issuer-id-{}", if bad.is_empty() { "empty" } else { bad }), (rc == 0) == native_ok && issuer_ok, &mut out);
        }
        // credential requests: entropy / prover DID present, absent, or present and EMPTY (an empty string is a string)
        {
            let c0 = &w.cds[0];
            let (sidc, cidc) = (cs(&c0.schema_id), cs(&c0.cred_def_id));
            let mut offer_h = 0usize;
            unsafe { anoncreds_create_credential_offer(sidc.as_ptr(), cidc.as_ptr(), l.kcp0, &mut offer_h) };
            let offer: Option<anoncreds::types::CredentialOffer> = get_json(offer_h).and_then(|v| serde_json::from_value(v).ok());
            let ls = cs(l.d["link_secret"].as_str().unwrap());
            let lsid = cs("ls");
            for e in [None, Some(""), Some("entropy")] {
                for d in [None, Some(""), Some("NcYxiDXkpYi6ov5FcYDi1e"), Some("did:web:x")] {
                    let native_ok = offer.as_ref().map(|o| anoncreds::prover::create_credential_request(e, d, &c0.cred_def, &w.holders[0], "ls", o).is_ok()).unwrap_or(false);
                    let (ec, dc) = (e.map(cs), d.map(cs));
                    let (mut rh, mut mh) = (0usize, 0usize);
                    let rc = unsafe {
                        anoncreds_create_credential_request(ec.as_ref().map_or(std::ptr::null(), |c| c.as_ptr()), dc.as_ref().map_or(std::ptr::null(), |c| c.as_ptr()), l.cred_def0, ls.as_ptr(), lsid.as_ptr(), offer_h, &mut rh, &mut mh)
                    };
                    // what the request carries is what was given
                    let carried = if rc == 0 { get_json(rh).map(|v| v["entropy"].as_str().map(|x| x.to_string()) == e.map(|x| x.to_string()) && v["prover_did"].as_str().map(|x| x.to_string()) == d.map(|x| x.to_string())).unwrap_or(false) } else { true };
                    a(&format!("create_credential_request:entropy-{}:did-{}", match e { None => "absent", Some("") => "empty", _ => "given" }, match d { None => "absent", Some("") => "empty", Some(x) if x.starts_with("did:") => "uri", _ => "legacy" }), (rc == 0) == native_ok && carried, &mut out);
                }
            }
        }
        // id lists with a repeated id: the handle at position i belongs to the id at position i
        {
            let ctx2 = vw::build_ctx(&w, &vw::VCtx::full(&w));
            let req: anoncreds::data_types::pres_request::PresentationRequest = serde_json::from_value(docs["request"].clone()).unwrap();
            let pres: anoncreds::data_types::presentation::Presentation = serde_json::from_value(docs["presentation"].clone()).unwrap();
            let native = vw::verify_legacy(&pres, &req, &ctx2);
            let mut cd3 = 0usize;
            unsafe { anoncreds_credential_definition_from_json(buf(&serde_json::to_value(&w.cds[3].cred_def).unwrap()), &mut cd3) };
            let (c0, c1, c3) = (w.cds[0].cred_def_id.clone(), w.cds[1].cred_def_id.clone(), w.cds[3].cred_def_id.clone());
            let sid0 = w.cds[0].schema_id.clone();
            // (name, handles, ids): every list pairs each id with ITS definition, so the verdict is the native one
            let variants: Vec<(&str, Vec<usize>, Vec<&str>)> = vec![
                ("plain", vec![l.cred_def0], vec![c0.as_str()]),
                ("other-first", vec![cd3, l.cred_def0], vec![c3.as_str(), c0.as_str()]),
                ("needed-listed-twice-first", vec![l.cred_def0, l.cred_def0, cd3], vec![c0.as_str(), c0.as_str(), c3.as_str()]),
                ("other-listed-twice-first", vec![cd3, cd3, l.cred_def0], vec![c3.as_str(), c3.as_str(), c0.as_str()]),
                ("other-twice-needed-between", vec![l.cred_def1, l.cred_def0, l.cred_def1], vec![c1.as_str(), c0.as_str(), c1.as_str()]),
            ];
            for (vname, hs, ids) in variants.iter() {
                let mut res: i8 = -1;
                let rc = ffi_verify(&l, false, l.presentation, l.request, &[l.schema, l.schema], &[&sid0, &sid0], hs, ids, &[], &[], &[], &mut res);
                let ffi = if rc != 0 { "err" } else if res == 1 { "accept" } else { "reject" };
                a(&format!("verify:id-lists-{}", vname), native == ffi, &mut out);
            }
        }
        // revocation status lists: creation and updates with index lists
        let mut rp = 0usize;
        unsafe { anoncreds_revocation_registry_definition_private_from_json(buf(&serde_json::to_value(&w.reg.def_priv).unwrap()), &mut rp) };
        // 64-bit sizes and indices: whatever does not fit the registry's 32-bit index type is refused, not wrapped
        {
            #[repr(C)]
            struct RevInfo {
                reg_def: usize,
                reg_def_private: usize,
                status_list: usize,
                reg_idx: i64,
            }
            let mut x_cases: Vec<String> = vec![];
            let cid1 = cs(&w.cds[1].cred_def_id);
            let (tag, ty, iss1) = (cs("sized"), cs("CL_ACCUM"), cs(&w.cds[1].issuer_id));
            let _ = std::fs::create_dir_all(format!("{}/sized-tails", outdir));
            let tdir = cs(&format!("{}/sized-tails", outdir));
            for (nname, n) in [("beyond-u32", 4294967299i64), ("negative", -3), ("i64-min", i64::MIN), ("ok", 3)] {
                let (mut d, mut dp) = (0usize, 0usize);
                let rc = unsafe { anoncreds_create_revocation_registry_def(l.cred_def1, cid1.as_ptr(), iss1.as_ptr(), tag.as_ptr(), ty.as_ptr(), n, tdir.as_ptr(), &mut d, &mut dp) };
                let fits = u32::try_from(n).is_ok();
                let ok = if fits { rc == 0 && get_json(d).map(|v| v["value"]["maxCredNum"] == json!(n)).unwrap_or(false) } else { rc != 0 };
                if !ok && std::env::var("AVH_DEBUG").is_ok() {
                    eprintln!("max-cred-num {} rc={} err={:?} doc={:?}", nname, rc, last_error(), get_json(d));
                }
                a(&format!("create_registry:max-cred-num-{}", nname), ok, &mut out);
                let shown = if rc == 0 { get_json(d).and_then(|v| v["value"]["maxCredNum"].as_i64()) } else { None };
                x_cases.push(format!("X {} {} {}", sx::s("max_cred_num"), n, match (rc, shown) { (0, Some(j)) => format!("(ok {})", j), (0, None) => "(ok -1)".to_string(), _ => "(err)".to_string() }));
            }
            let _ = std::fs::remove_dir_all(format!("{}/sized-tails", outdir));
            // the registry index of a credential to issue
            let c1 = &w.cds[1];
            let prepared = (|| -> Option<(usize, usize, usize)> {
                let offer1 = anoncreds::issuer::create_credential_offer(c1.schema_id.as_str().try_into().ok()?, c1.cred_def_id.as_str().try_into().ok()?, &c1.kcp).ok()?;
                let (req1, _md) = anoncreds::prover::create_credential_request(Some("entropy"), None, &c1.cred_def, &w.holders[0], "ls", &offer1).ok()?;
                let (mut cdp1, mut oh, mut rh) = (0usize, 0usize, 0usize);
                unsafe {
                    anoncreds_credential_definition_private_from_json(buf(&serde_json::to_value(&c1.cred_def_priv).ok()?), &mut cdp1);
                    anoncreds_credential_offer_from_json(buf(&serde_json::to_value(&offer1).ok()?), &mut oh);
                    anoncreds_credential_request_from_json(buf(&serde_json::to_value(&req1).ok()?), &mut rh);
                }
                if cdp1 == 0 || oh == 0 || rh == 0 { None } else { Some((cdp1, oh, rh)) }
            })();
            if let Some((cdp1, oh, rh)) = prepared {
                let names = [cs("name"), cs("age"), cs("sex"), cs("height")];
                let raws = [cs("Alex"), cs("28"), cs("male"), cs("175")];
                let np: Vec<*const c_char> = names.iter().map(|c| c.as_ptr()).collect();
                let rwp: Vec<*const c_char> = raws.iter().map(|c| c.as_ptr()).collect();
                for (iname, idx) in [("beyond-u32", 4294967298i64), ("negative", -1), ("i64-max", i64::MAX), ("ok", 2)] {
                    let info = RevInfo { reg_def: l.reg_def, reg_def_private: rp, status_list: l.list0, reg_idx: idx };
                    let mut ch = 0usize;
                    let rc = unsafe { anoncreds_create_credential(l.cred_def1, cdp1, oh, rh, FfiList::of(&np), FfiList::of(&rwp), FfiList::empty(), &info as *const RevInfo as *const c_void, &mut ch) };
                    let fits = u32::try_from(idx).is_ok();
                    let ok = if fits {
                        let mut p: *const c_char = std::ptr::null();
                        let k = cs("rev_reg_index");
                        rc == 0 && unsafe { anoncreds_credential_get_attribute(ch, k.as_ptr(), &mut p) } == 0 && !p.is_null() && unsafe { CStr::from_ptr(p) }.to_string_lossy() == idx.to_string()
                    } else {
                        rc != 0
                    };
                    a(&format!("create_credential:registry-index-{}", iname), ok, &mut out);
                    let shown: Option<i64> = if rc == 0 {
                        let mut p: *const c_char = std::ptr::null();
                        let k = cs("rev_reg_index");
                        if unsafe { anoncreds_credential_get_attribute(ch, k.as_ptr(), &mut p) } == 0 && !p.is_null() { unsafe { CStr::from_ptr(p) }.to_string_lossy().parse().ok() } else { None }
                    } else { None };
                    x_cases.push(format!("X {} {} {}", sx::s("reg_idx"), idx, match (rc, shown) { (0, Some(j)) => format!("(ok {})", j), (0, None) => "(ok -1)".to_string(), _ => "(err)".to_string() }));
                }
            }
            // the index of a revocation state: a state for index i differs from the state for any other index of the registry
            {
                let tp = cs(&w.tails_path);
                for idx in [1i64, 2, 0, -1, 4294967297, 4294967298, i64::MAX, i64::MIN] {
                    let mut sh = 0usize;
                    let rc = unsafe { anoncreds_create_or_update_revocation_state(l.reg_def, l.list0, idx, tp.as_ptr(), 0, 0, &mut sh) };
                    // which index the state is for: the one whose native state equals it
                    let shown: Option<i64> = if rc == 0 {
                        let got = get_json(sh);
                        (0u32..w.reg.def.value.max_cred_num + 1).find(|i| {
                            let cur: Option<anoncreds::types::RevocationStatusList> = serde_json::from_value(docs["list0"].clone()).ok();
                            cur.and_then(|c| anoncreds::prover::create_or_update_revocation_state(&w.tails_path, &w.reg.def, &c, *i, None, None).ok()).map(|n| Some(serde_json::to_value(&n).unwrap()) == got).unwrap_or(false)
                        }).map(|i| i as i64)
                    } else { None };
                    x_cases.push(format!("X {} {} {}", sx::s("rev_reg_index"), idx, match (rc, shown) { (0, Some(j)) => format!("(ok {})", j), (0, None) => "(ok -1)".to_string(), _ => "(err)".to_string() }));
                }
            }
            for body in x_cases.drain(..) {
                let id = out.next_id();
                out.case(&format!("(C17 {} {})", id, body), "marshalling:64-bit-index", || json!({"what": "64-bit size / index rule"}));
            }
        }
        let rid = cs(vw::REG_ID);
        let iss = cs(&w.cds[1].issuer_id);
        for (by_default, ts) in [(true, 100i64), (false, 100), (true, 0), (false, -5), (true, 4102444800)] {
            let native = anoncreds::issuer::create_revocation_status_list(&w.cds[1].cred_def, vw::REG_ID.try_into().unwrap(), &w.reg.def, &w.reg.def_priv, by_default, if ts <= 0 { None } else { Some(ts as u64) }).ok();
            let mut lh = 0usize;
            let rc = unsafe { anoncreds_create_revocation_status_list(l.cred_def1, rid.as_ptr(), l.reg_def, rp, iss.as_ptr(), by_default as i8, ts, &mut lh) };
            a(&format!("create_status_list:{}:{}", if by_default { "by-default" } else { "on-demand" }, ts), match native { Some(n) => rc == 0 && get_json(lh) == Some(serde_json::to_value(&n).unwrap()), None => rc != 0 }, &mut out);
        }
        let cur: anoncreds::types::RevocationStatusList = serde_json::from_value(docs["list0"].clone()).unwrap();
        let updates: Vec<(&str, Vec<i32>, Vec<i32>, i64)> = vec![
            ("revoke-one", vec![], vec![2], 200), ("revoke-several-unordered", vec![], vec![4, 1, 3], 200), ("issue-and-revoke", vec![3], vec![2], 200), ("revoke-duplicate-index", vec![], vec![2, 2], 200),
            ("negative-revoked", vec![], vec![-2], 200), ("negative-issued", vec![-3], vec![], 200), ("negative-among-valid", vec![], vec![2, -3], 200), ("negative-both", vec![-1], vec![-1], 200),
            ("nothing", vec![], vec![], 200), ("no-timestamp", vec![], vec![2], 0), ("nothing-no-timestamp", vec![], vec![], 0), ("nothing-negative-timestamp", vec![], vec![], -1), ("negative-timestamp", vec![], vec![2], -5), ("out-of-range", vec![], vec![99], 200), ("both-same-index", vec![2], vec![2], 200), ("issue-first-revoke-last", vec![1], vec![5], 300),
        ];
        for (uname, issued, revoked, ts) in updates.iter() {
            let set = |v: &Vec<i32>| if v.is_empty() { None } else { Some(v.iter().map(|x| *x as u32).collect::<std::collections::BTreeSet<u32>>()) };
            let native = anoncreds::issuer::update_revocation_status_list(&w.cds[1].cred_def, &w.reg.def, &w.reg.def_priv, &cur, set(issued), set(revoked), if *ts <= 0 { None } else { Some(*ts as u64) }).ok();
            let mut nh = 0usize;
            let rc = unsafe { anoncreds_update_revocation_status_list(l.cred_def1, l.reg_def, rp, l.list0, FfiList::of(issued), FfiList::of(revoked), *ts, &mut nh) };
            // without a timestamp (0 or negative through the C ABI) the list keeps the timestamp it has
            a(&format!("update_status_list:{}", uname), match native { Some(n) => rc == 0 && get_json(nh) == Some(serde_json::to_value(&n).unwrap()), None => rc != 0 }, &mut out);
            if rc == 0 {
                let ts_of = |v: Option<Value>| -> String { match v.and_then(|x| x["timestamp"].as_i64()) { Some(t) => format!("({})", t), None => "()".to_string() } };
                let id = out.next_id();
                out.case(&format!("(C17 {} T {} {} {})", id, ts_of(get_json(l.list0)), ts, ts_of(get_json(nh))), "marshalling:timestamp-argument", || json!({"what": "timestamp argument rule", "update": uname}));
            }
            // the holder's state for the updated list, from scratch and from the previous state
            if let (Some(nl), 0) = (get_json(nh), rc) {
                let nlist: anoncreds::types::RevocationStatusList = serde_json::from_value(nl).unwrap();
                let tp = cs(&w.tails_path);
                for (sname, idx, with_old) in [("scratch", 1i64, false), ("incremental", 1, true), ("index-out-of-range", 99, false), ("negative-index", -1, false), ("index-beyond-u32", 4294967297, false), ("index-u32-max", 4294967295, false), ("index-i64-max", i64::MAX, false), ("index-i64-min", i64::MIN, false)] {
                    let old_state: Option<anoncreds::types::CredentialRevocationState> = if with_old { serde_json::from_value(docs["state10"].clone()).ok() } else { None };
                    let native = u32::try_from(idx).ok().and_then(|i| anoncreds::prover::create_or_update_revocation_state(&w.tails_path, &w.reg.def, &nlist, i, old_state.as_ref(), if with_old { Some(&cur) } else { None }).ok());
                    let mut sh = 0usize;
                    let rc5 = unsafe { anoncreds_create_or_update_revocation_state(l.reg_def, nh, idx, tp.as_ptr(), if with_old { l.state10 } else { 0 }, if with_old { l.list0 } else { 0 }, &mut sh) };
                    a(&format!("revocation_state:{}:{}", uname, sname), match native { Some(n) => rc5 == 0 && get_json(sh) == Some(serde_json::to_value(&n).unwrap()), None => rc5 != 0 }, &mut out);
                }
            }
        }
        let _ = anoncreds_w3c_credential_from_json;
    }
    // presentation creation with two credentials: the prove list is a flat list of (credential entry, referent) records in
    // ANY order; the result is the presentation the native API builds for the same mapping
    {
        let req2 = ReqSpec::new("80084").attr("a_name", "name").attr("a_zip", "Zip Code").pred("p_age", "age", ">=", 18).pred("p_sal", "salary", ">", 1000).build().unwrap();
        let native = {
            let mut pc: anoncreds::types::PresentCredentials<anoncreds::types::Credential> = anoncreds::types::PresentCredentials::default();
            {
                let mut a0 = pc.add_credential(&w.creds[0].legacy, None, None);
                a0.add_requested_attribute("a_name", true);
                a0.add_requested_predicate("p_age");
            }
            {
                let mut a1 = pc.add_credential(&w.creds[2].legacy, None, None);
                a1.add_requested_attribute("a_zip", true);
                a1.add_requested_predicate("p_sal");
            }
            anoncreds::prover::create_presentation(&req2, pc, None, &w.holders[0], &w.schemas(), &w.cred_defs()).ok().map(|p| serde_json::to_value(&p).unwrap())
        };
        let mk = |f: unsafe extern "C" fn(ByteBuffer, *mut usize) -> usize, v: Value| -> usize { let mut h = 0usize; unsafe { f(buf(&v), &mut h) }; h };
        let (s2, cd2, c2) = (mk(anoncreds_schema_from_json, serde_json::to_value(&w.cds[2].schema).unwrap()), mk(anoncreds_credential_definition_from_json, serde_json::to_value(&w.cds[2].cred_def).unwrap()), mk(anoncreds_credential_from_json, serde_json::to_value(&w.creds[2].legacy).unwrap()));
        let rh = mk(anoncreds_presentation_request_from_json, serde_json::to_value(&req2).unwrap());
        let (r_name, r_zip, r_age, r_sal) = (cs("a_name"), cs("a_zip"), cs("p_age"), cs("p_sal"));
        let rec = |e: i64, r: &CString, pred: bool| FfiCredentialProve { entry_idx: e, referent: r.as_ptr(), is_predicate: pred as i8, reveal: 1 };
        let orders: Vec<(&str, Vec<FfiCredentialProve>)> = vec![
            ("grouped", vec![rec(0, &r_name, false), rec(0, &r_age, true), rec(1, &r_zip, false), rec(1, &r_sal, true)]),
            ("second-credential-first", vec![rec(1, &r_zip, false), rec(1, &r_sal, true), rec(0, &r_name, false), rec(0, &r_age, true)]),
            ("interleaved", vec![rec(0, &r_name, false), rec(1, &r_zip, false), rec(0, &r_age, true), rec(1, &r_sal, true)]),
            ("interleaved-reversed", vec![rec(1, &r_sal, true), rec(0, &r_age, true), rec(1, &r_zip, false), rec(0, &r_name, false)]),
        ];
        let ls = cs(l.d["link_secret"].as_str().unwrap());
        let (sid0, sid2, cid0c, cid2) = (cs(&w.cds[0].schema_id), cs(&w.cds[2].schema_id), cs(&w.cds[0].cred_def_id), cs(&w.cds[2].cred_def_id));
        for (oname, prove) in orders.iter() {
            let entries = [FfiCredentialEntry { credential: l.cred0, timestamp: -1, rev_state: 0 }, FfiCredentialEntry { credential: c2, timestamp: -1, rev_state: 0 }];
            let mut ph = 0usize;
            let rc = unsafe {
                anoncreds_create_presentation(rh, FfiList::of(&entries), FfiList::of(prove), FfiList::empty(), FfiList::empty(), ls.as_ptr(),
                    FfiList::of(&[l.schema, s2]), FfiList::of(&[sid0.as_ptr(), sid2.as_ptr()]), FfiList::of(&[l.cred_def0, cd2]), FfiList::of(&[cid0c.as_ptr(), cid2.as_ptr()]), &mut ph)
            };
            let got = if rc == 0 { get_json(ph) } else { None };
            let same_shape = match (&got, &native) {
                (Some(g), Some(n)) => g["requested_proof"] == n["requested_proof"] && g["identifiers"] == n["identifiers"],
                _ => false,
            };
            let verifies = got.and_then(|g| serde_json::from_value::<anoncreds::data_types::presentation::Presentation>(g).ok())
                .map(|p| vw::verify_legacy(&p, &req2, &ctx) == "accept").unwrap_or(false);
            a(&format!("create_presentation:two-credentials-{}", oname), same_shape && verifies, &mut out);
        }
        // a credential entry that no record refers to, at the front / in the middle / at the end of the entries: every
        // record stays with the entry it names
        let c6 = mk(anoncreds_credential_from_json, serde_json::to_value(&w.creds[6].legacy).unwrap());
        for (oname, unused_at) in [("unused-entry-first", 0usize), ("unused-entry-middle", 1), ("unused-entry-last", 2)] {
            let used: Vec<usize> = (0..3).filter(|i| *i != unused_at).collect();
            let native = {
                let mut pc: anoncreds::types::PresentCredentials<anoncreds::types::Credential> = anoncreds::types::PresentCredentials::default();
                for i in 0..3 {
                    if i == unused_at {
                        pc.add_credential(&w.creds[6].legacy, None, None);
                    } else if i == used[0] {
                        let mut a0 = pc.add_credential(&w.creds[0].legacy, None, None);
                        a0.add_requested_attribute("a_name", true);
                        a0.add_requested_predicate("p_age");
                    } else {
                        let mut a1 = pc.add_credential(&w.creds[2].legacy, None, None);
                        a1.add_requested_attribute("a_zip", true);
                        a1.add_requested_predicate("p_sal");
                    }
                }
                anoncreds::prover::create_presentation(&req2, pc, None, &w.holders[0], &w.schemas(), &w.cred_defs()).ok().map(|p| serde_json::to_value(&p).unwrap())
            };
            let mut entries = vec![];
            for i in 0..3 {
                let h = if i == unused_at { c6 } else if i == used[0] { l.cred0 } else { c2 };
                entries.push(FfiCredentialEntry { credential: h, timestamp: -1, rev_state: 0 });
            }
            let (e0, e1) = (used[0] as i64, used[1] as i64);
            let prove = vec![rec(e1, &r_sal, true), rec(e0, &r_name, false), rec(e1, &r_zip, false), rec(e0, &r_age, true)];
            let mut ph = 0usize;
            let rc = unsafe {
                anoncreds_create_presentation(rh, FfiList::of(&entries), FfiList::of(&prove), FfiList::empty(), FfiList::empty(), ls.as_ptr(),
                    FfiList::of(&[l.schema, s2]), FfiList::of(&[sid0.as_ptr(), sid2.as_ptr()]), FfiList::of(&[l.cred_def0, cd2]), FfiList::of(&[cid0c.as_ptr(), cid2.as_ptr()]), &mut ph)
            };
            let got = if rc == 0 { get_json(ph) } else { None };
            let same_shape = match (&got, &native) {
                (Some(g), Some(n)) => g["requested_proof"] == n["requested_proof"] && g["identifiers"] == n["identifiers"],
                (None, None) => true,
                _ => false,
            };
            let verifies = match got {
                Some(g) => serde_json::from_value::<anoncreds::data_types::presentation::Presentation>(g).ok().map(|p| vw::verify_legacy(&p, &req2, &ctx) == "accept").unwrap_or(false),
                None => native.is_none(),
            };
            a(&format!("create_presentation:{}", oname), same_shape && verifies, &mut out);
        }
    }
    // verification with interval overrides: every entry of the list reaches the verifier, grouped by registry
    {
        let rreq2 = ReqSpec::new("80083").attr("a", "name").global((Some(120), Some(250))).build().unwrap();
        if let Some((rpres2, _, _)) = vw::make_legacy(&w, &rreq2, &[Pick { cred: 1, attrs: vec![("a".into(), true)], preds: vec![], list: Some(0), inc: false }], &[], 0) {
            let (mut ph, mut rh) = (0usize, 0usize);
            unsafe {
                anoncreds_presentation_from_json(buf(&serde_json::to_value(&rpres2).unwrap()), &mut ph);
                anoncreds_presentation_request_from_json(buf(&serde_json::to_value(&rreq2).unwrap()), &mut rh);
            }
            let other_reg = "did:web:issuer1.example/reg/other";
            let lists: Vec<(&str, Vec<(&str, i32, i32)>)> = vec![
                ("none", vec![]), ("one-hit", vec![(vw::REG_ID, 120, 90)]), ("one-miss", vec![(vw::REG_ID, 200, 40)]),
                ("two-needed-first", vec![(vw::REG_ID, 120, 90), (vw::REG_ID, 200, 40)]), ("two-needed-last", vec![(vw::REG_ID, 200, 40), (vw::REG_ID, 120, 90)]),
                ("three-needed-middle", vec![(vw::REG_ID, 200, 40), (vw::REG_ID, 120, 90), (vw::REG_ID, 10, 5)]),
                ("same-bound-twice", vec![(vw::REG_ID, 120, 130), (vw::REG_ID, 120, 90)]), ("same-bound-twice-reversed", vec![(vw::REG_ID, 120, 90), (vw::REG_ID, 120, 130)]),
                ("other-registry-between", vec![(vw::REG_ID, 120, 90), (other_reg, 120, 130), (vw::REG_ID, 200, 40)]), ("other-registry-only", vec![(other_reg, 120, 90)]),
            ];
            for (oname, ovr) in lists.iter() {
                let mut m: std::collections::HashMap<anoncreds::data_types::rev_reg_def::RevocationRegistryDefinitionId, std::collections::HashMap<u64, u64>> = Default::default();
                for (id, a_, b_) in ovr.iter() {
                    m.entry(anoncreds::data_types::rev_reg_def::RevocationRegistryDefinitionId::new_unchecked(id.to_string())).or_default().insert(*a_ as u64, *b_ as u64);
                }
                let native = vw::outcome_of(std::panic::catch_unwind(std::panic::AssertUnwindSafe(|| {
                    anoncreds::verifier::verify_presentation(&rpres2, &rreq2, &ctx.schemas, &ctx.cred_defs, ctx.reg_defs.as_ref(), ctx.lists.clone(), Some(&m))
                })));
                let mut res: i8 = -1;
                let rc = ffi_verify_with_overrides(&l, ph, rh, &sid, &cid1, ovr, &mut res);
                let ffi = if rc != 0 { "err" } else if res == 1 { "accept" } else { "reject" };
                a(&format!("verify:overrides-{}:{}", oname, native), native == ffi, &mut out);
            }
        }
    }

    // ---------- (B) malformed arguments, one child process each ----------
    let exe = std::env::current_exe().unwrap();
    let results = crate::par::par_map(&TESTS.to_vec(), crate::par::ncpu(), |_, (test, _)| {
        let o = std::process::Command::new(&exe).args(["C17-child", test, &docs_path, "x", "x"]).output();
        match o {
            Ok(o) => {
                let text = String::from_utf8_lossy(&o.stdout).to_string();
                if let Some(line) = text.lines().find(|l| l.starts_with("RC ")) {
                    let f: Vec<&str> = line.split(' ').collect();
                    (f[1].to_string(), f.get(3) == Some(&"1"), f.get(5) == Some(&"1"))
                } else {
                    use std::os::unix::process::ExitStatusExt;
                    (format!("crash-signal-{}", o.status.signal().unwrap_or(0)), false, false)
                }
            }
            Err(_) => ("spawn-failed".to_string(), false, false),
        }
    });
    for ((test, kind), (rc, msg, hmsg)) in TESTS.iter().zip(results) {
        if *kind == "null-data-list" {
            // as natively on an empty list: encoding nothing succeeds, a schema without attributes is refused; no crash
            let expect_ok = *test == "nulldata:encode";
            a(test, rc.chars().all(|c| c.is_ascii_digit()) && !rc.is_empty() && (rc == "0") == expect_ok, &mut out);
            continue;
        }
        let id = out.next_id();
        out.case(
            &format!("(C17 {} B {} {} {} {} {})", id, sx::s(test), sx::s(kind), sx::s(&rc), sx::boolean(msg), sx::boolean(hmsg)),
            &format!("malformed:{}", kind),
            || json!({"test": test, "kind": kind, "rc": rc, "message_retrievable": msg}),
        );
    }
    let _ = std::fs::remove_file(&docs_path);
    let _ = std::fs::remove_dir_all(format!("{}/tails", outdir));
    out.finish();
}
