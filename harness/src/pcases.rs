//! Prover cases for C04 and C07: a request, the holder's selection over the credentials of the
//! verification world, the presentation the library builds (both formats), what a structural
//! scan of the serialised presentation finds of the credentials' values and of secret material,
//! and the verdict of the library's verifier on it.
//! Case: (Cxx id P <L|W> request ctx link selection self impl leaks secrets verify expect-honest)
use crate::out::Out;
use crate::rng::Rng;
use crate::sx;
use crate::vcases::{Iv, ReqSpec};
use crate::vw::{self, Pick, Prov, VCtx, World};
use serde_json::{json, Value};
use std::collections::BTreeSet;

#[derive(Clone, Debug)]
pub struct PJob {
    pub class: String,
    pub w3c: bool,
    pub req: ReqSpec,
    pub picks: Vec<Pick>,
    pub self_att: Vec<(String, String)>,
    pub ctx: VCtx,
    pub expect_honest: bool,
    pub multi_proof: bool,
}

fn variant(r: &mut Rng, name: &str) -> String {
    match r.below(5) {
        0 => name.to_uppercase(),
        1 => name.to_lowercase(),
        2 => name.chars().map(|c| c.to_string()).collect::<Vec<_>>().join(" "),
        3 => format!(" {}", name),
        _ => name.to_string(),
    }
}

/// restrictions that the credential of world index `ci` meets (true) or misses (false)
fn restriction(r: &mut Rng, w: &World, ci: usize, attr: Option<(&str, &str)>, want: bool) -> Value {
    let c = &w.creds[ci];
    let cd = &w.cds[c.cd];
    let sch = &cd.schema;
    let mut pool_true = vec![
        json!({"schema_id": cd.schema_id}),
        json!({"cred_def_id": cd.cred_def_id}),
        json!({"issuer_id": cd.issuer_id}),
        json!({"schema_name": sch.name}),
        json!({"schema_version": sch.version}),
        json!({"schema_issuer_id": sch.issuer_id.0}),
        json!({"$or": [{"cred_def_id": "nope"}, {"cred_def_id": cd.cred_def_id}]}),
        json!({"$and": [{"schema_id": cd.schema_id}, {"issuer_id": cd.issuer_id}]}),
        json!({"cred_def_id": {"$in": ["x", cd.cred_def_id]}}),
        json!({"$not": {"schema_id": "other"}}),
        json!([{"schema_id": "other"}, {"cred_def_id": cd.cred_def_id}]),
    ];
    let mut pool_false = vec![json!({"schema_id": "other"}), json!({"cred_def_id": "other"}), json!({"$not": {"issuer_id": cd.issuer_id}}), json!({"schema_version": "9.9"})];
    if let Some((n, v)) = attr {
        pool_true.push(json!({ format!("attr::{}::marker", n): "1" }));
        pool_true.push(json!({ format!("attr::{}::value", n): v }));
        pool_true.push(json!({"$and": [{ format!("attr::{}::value", n): v }, {"cred_def_id": cd.cred_def_id}]}));
        pool_false.push(json!({ format!("attr::{}::value", n): format!("{}x", v) }));
    }
    if want { r.pick(&pool_true).clone() } else { r.pick(&pool_false).clone() }
}

fn numeric(v: &str) -> Option<i64> {
    v.parse::<i32>().ok().map(|x| x as i64)
}

pub fn gen_job(r: &mut Rng, w: &World, w3c: bool, n: u64) -> PJob {
    let mut honest = true;
    let mut tags: Vec<&'static str> = vec![];
    let mine = [0usize, 1, 2, 5, 6, 7];
    let ncred = 1 + r.below(3) as usize;
    let mut chosen: Vec<usize> = vec![];
    for _ in 0..ncred {
        let c = if r.chance(1, 25) { *r.pick(&[3usize, 4]) } else { *r.pick(&mine) };
        if !chosen.contains(&c) {
            chosen.push(c);
        }
    }
    if chosen.iter().any(|c| w.creds[*c].holder != 0) {
        honest = false;
        tags.push("foreign-credential");
    }
    let mut req = ReqSpec::new(&format!("{}", 1000 + n));
    let mut picks: Vec<Pick> = vec![];
    let mut self_att = vec![];
    let mut refn = 0;
    let global: Option<Iv> = if r.chance(1, 4) { Some(*r.pick(&[(None, Some(250u64)), (Some(50), Some(350)), (Some(150), None), (Some(90), Some(110)), (None, Some(100))])) } else { None };
    if let Some(g) = global {
        req = req.global(g);
        tags.push("global-interval");
    }
    for &ci in &chosen {
        let c = &w.creds[ci];
        let vals = c.values.clone();
        let mut attrs: Vec<(String, bool)> = vec![];
        let mut preds: Vec<String> = vec![];
        let mut revealed_names: BTreeSet<String> = BTreeSet::new();
        let mut locals: Vec<Iv> = vec![];
        let na = r.below(4);
        for _ in 0..na {
            refn += 1;
            let rf = format!("a{}", refn);
            let reveal = r.chance(3, 5);
            let group = r.chance(1, 4);
            let (names, first): (Vec<String>, (String, String)) = if group {
                let mut ix: Vec<usize> = (0..vals.len()).collect();
                r.shuffle(&mut ix);
                let k = 2 + r.below(2) as usize;
                let ns: Vec<String> = ix.iter().take(k).map(|i| variant(r, &vals[*i].0)).collect();
                (ns, vals[ix[0]].clone())
            } else {
                let i = r.below(vals.len() as u64) as usize;
                (vec![variant(r, &vals[i].0)], vals[i].clone())
            };
            if group {
                let ns: Vec<&str> = names.iter().map(|s| s.as_str()).collect();
                req = req.group(&rf, &ns);
                tags.push("group");
            } else {
                req = req.attr(&rf, &names[0]);
            }
            if reveal {
                for n in &names {
                    revealed_names.insert(vw::cvn(n));
                }
            } else {
                tags.push("unrevealed");
            }
            if r.chance(3, 10) {
                let want = !r.chance(1, 8);
                // a value restriction can only be met by a revealed single attribute or group member
                // the W3C form of a credential holds an i32 literal as a number: "007" is 7 there
                let shown_value = if w3c { first.1.parse::<i32>().map(|x| x.to_string()).unwrap_or(first.1.clone()) } else { first.1.clone() };
                let attr = if reveal { Some((names[0].as_str(), shown_value.as_str())) } else { None };
                let q = if !reveal && r.chance(1, 6) {
                    honest = false;
                    tags.push("value-restriction-on-unrevealed");
                    json!({ format!("attr::{}::value", names[0]): first.1 })
                } else {
                    restriction(r, w, ci, attr, want)
                };
                if !want {
                    honest = false;
                    tags.push("restriction-not-met");
                } else {
                    tags.push("restriction-met");
                }
                req = req.restr(&rf, q);
            }
            if r.chance(1, 4) {
                let iv = *r.pick(&[(None, Some(250u64)), (Some(50), Some(350)), (Some(150), None), (Some(190), Some(210)), (None, None), (Some(250), Some(400))]);
                req = req.local(&rf, iv);
                locals.push(iv);
                tags.push("local-interval");
            }
            attrs.push((rf, reveal));
        }
        let np = r.below(3);
        for _ in 0..np {
            let nums: Vec<&(String, String)> = vals.iter().filter(|(_, v)| numeric(v).is_some()).collect();
            if nums.is_empty() {
                break;
            }
            let (an, av) = (*r.pick(&nums)).clone();
            let x = numeric(&av).unwrap();
            if revealed_names.contains(&vw::cvn(&an)) && !r.chance(1, 30) {
                continue;
            }
            refn += 1;
            let rf = format!("p{}", refn);
            let sat = !r.chance(1, 25);
            let (op, th) = match r.below(4) {
                0 => (">=", if sat { x - r.below(3) as i64 } else { x + 1 }),
                1 => (">", if sat { x - 1 - r.below(3) as i64 } else { x }),
                2 => ("<=", if sat { x + r.below(3) as i64 } else { x - 1 }),
                _ => ("<", if sat { x + 1 + r.below(3) as i64 } else { x }),
            };
            req = req.pred(&rf, &variant(r, &an), op, th);
            if r.chance(1, 5) {
                let want = !r.chance(1, 8);
                let q = restriction(r, w, ci, None, want);
                if !want {
                    honest = false;
                    tags.push("restriction-not-met");
                } else {
                    tags.push("pred-restriction-met");
                }
                req = req.restr(&rf, q);
            }
            if r.chance(1, 6) {
                let iv = *r.pick(&[(None, Some(250u64)), (Some(50), Some(350)), (Some(150), None)]);
                req = req.local(&rf, iv);
                locals.push(iv);
                tags.push("local-interval");
            }
            preds.push(rf);
        }
        // revocation state: the holder picks a list whose timestamp meets every interval that applies
        let nrefs = attrs.len() + preds.len();
        let list = if c.rev_idx.is_some() && nrefs > 0 {
            let merged: Option<Iv> = if !locals.is_empty() {
                let mut f: Option<u64> = None;
                let mut t: Option<u64> = None;
                for (a, b) in &locals {
                    f = match (f, a) { (Some(x), Some(y)) => Some(x.max(*y)), (None, y) => *y, (x, None) => x };
                    t = match (t, b) { (Some(x), Some(y)) => Some(x.min(*y)), (None, y) => *y, (x, None) => x };
                }
                Some((f, t))
            } else {
                global
            };
            // legacy: the collapsed local interval, else the global one; W3C: per referent (local, else global)
            let mut demands: Vec<Iv> = vec![];
            if w3c {
                demands.extend(locals.iter().cloned());
                if locals.len() < nrefs {
                    if let Some(g) = global {
                        demands.push(g);
                    }
                }
            } else if let Some(m) = merged {
                demands.push(m);
            }
            let idx = c.rev_idx.unwrap();
            if demands.is_empty() {
                if r.chance(1, 3) { Some(r.below(3) as usize) } else { None }
            } else {
                let ok: Vec<usize> = (0..w.lists.len())
                    .filter(|li| demands.iter().all(|(f, t)| w.lists[*li].ts >= f.unwrap_or(0) && w.lists[*li].ts <= t.unwrap_or(u64::MAX)) && !w.lists[*li].revoked.contains(&idx))
                    .collect();
                if r.chance(1, 10) || ok.is_empty() {
                    honest = false;
                    tags.push("revocation-demand-not-met");
                    let li = r.below(4) as usize;
                    if li == 3 { None } else { Some(li) }
                } else {
                    Some(*r.pick(&ok))
                }
            }
        } else {
            None
        };
        let inc = r.chance(1, 2);
        if inc && list.map_or(false, |li| li > 0) {
            tags.push("state-derived-incrementally");
        }
        picks.push(Pick { cred: ci, attrs, preds, list, inc });
    }
    // self-attested referent (legacy only)
    if !w3c && r.chance(1, 5) {
        refn += 1;
        let rf = format!("s{}", refn);
        req = req.attr(&rf, "nickname");
        self_att.push((rf, "Al".to_string()));
        tags.push("self-attested");
    }
    // an unused credential passed along
    if r.chance(1, 4) {
        let pos = r.below(picks.len() as u64 + 1) as usize;
        let ci = *r.pick(&mine);
        picks.insert(pos, Pick { cred: ci, attrs: vec![], preds: vec![], list: None, inc: false });
        tags.push("unused-credential");
    }
    // faults of the holder's selection
    match r.below(30) {
        0 => {
            if let Some(p) = picks.iter_mut().find(|p| !p.attrs.is_empty()) {
                p.attrs.pop();
                honest = false;
                tags.push("referent-not-served");
            }
        }
        1 => {
            if let Some(p) = picks.iter_mut().find(|p| !p.attrs.is_empty() || !p.preds.is_empty()) {
                p.attrs.push(("ghost".into(), r.chance(1, 2)));
                honest = false;
                tags.push("referent-not-in-request");
            }
        }
        2 => {
            if let Some(p) = picks.iter_mut().find(|p| !p.preds.is_empty()) {
                p.preds.push("ghostp".into());
                honest = false;
                tags.push("predicate-referent-not-in-request");
            }
        }
        _ => {}
    }
    let multi_proof = w3c && r.chance(1, 3);
    if multi_proof {
        tags.push("stored-with-foreign-proof-first");
    }
    tags.sort();
    tags.dedup();
    PJob { class: format!("{}{}", if honest { "honest" } else { "faulty" }, tags.iter().map(|t| format!("+{}", t)).collect::<String>()), w3c, req, picks, self_att, ctx: VCtx::full(w), expect_honest: honest, multi_proof }
}

// ---- abstraction of the selection ----
fn attr_value_sexp(v: &Value) -> String {
    match v {
        Value::String(s) => format!("(s {})", sx::s(s)),
        Value::Number(n) => format!("(n {})", n.as_i64().unwrap_or(0)),
        Value::Bool(b) => format!("(b {})", sx::boolean(*b)),
        _ => "(s x)".into(),
    }
}
fn present_sexp(w: &World, p: &Pick) -> String {
    let c = &w.creds[p.cred];
    let cd = &w.cds[c.cd];
    let mut vals: Vec<String> = c.legacy.values.0.iter().map(|(k, v)| format!("({} ({} {}))", sx::s(k), sx::s(&v.raw), sx::s(&v.encoded))).collect();
    vals.sort();
    let wv = serde_json::to_value(&c.w3c).unwrap();
    let subj: Vec<String> = wv["credentialSubject"].as_object().map(|m| m.iter().filter(|(k, _)| k.as_str() != "id").map(|(k, v)| format!("({} {})", sx::s(k), attr_value_sexp(v))).collect()).unwrap_or_default();
    let src = vw::source_sexp(w, &Prov { cred: p.cred, used_link: 0, pos: 0, nrp: None, altered: false });
    let cred = format!(
        "({} {} {} {} {} {} {})",
        sx::s(&cd.schema_id),
        sx::s(&cd.cred_def_id),
        sx::opt(c.legacy.rev_reg_id.as_ref(), |x| sx::s(&x.0)),
        sx::s(&cd.issuer_id),
        sx::l(&vals),
        sx::l(&subj),
        src
    );
    let st = w.state_of(p).and(p.list);
    let ts = st.map(|li| w.lists[li].ts);
    let state = match (st, c.rev_idx) {
        (Some(li), Some(idx)) => format!("((1 {} {}))", w.lists[li].acc_class, sx::boolean(!w.lists[li].revoked.contains(&idx))),
        _ => "()".to_string(),
    };
    format!(
        "({} {} {} {} {})",
        cred,
        sx::opt(ts, |t| sx::n(t)),
        state,
        sx::list(p.attrs.iter(), |(r, b)| format!("({} {})", sx::s(r), sx::boolean(*b))),
        sx::list(p.preds.iter(), |r| sx::s(r))
    )
}

// ---- structural scan of the serialised presentation ----
fn strings_of(v: &Value, out: &mut BTreeSet<String>, numbers_too: bool) {
    match v {
        Value::String(s) => {
            out.insert(s.clone());
            // a multibase msgpack value: look inside
            if s.starts_with('u') && s.len() > 40 {
                use base64::Engine;
                if let Ok(b) = base64::engine::general_purpose::URL_SAFE_NO_PAD.decode(&s[1..]) {
                    // typed decoding first: inside msgpack the CL numbers are byte strings, the JSON
                    // form of the decoded value shows them as the decimal strings used everywhere else
                    if let Ok(pv) = rmp_serde::from_slice::<anoncreds::data_types::w3c::proof::DataIntegrityProofValue>(&b) {
                        if let Ok(inner) = serde_json::to_value(&pv) {
                            strings_of(&inner, out, false);
                        }
                    } else if let Ok(inner) = rmp_serde::from_slice::<Value>(&b) {
                        strings_of(&inner, out, false);
                    }
                }
            }
        }
        Value::Number(n) if numbers_too => {
            out.insert(n.to_string());
        }
        Value::Array(a) => a.iter().for_each(|x| strings_of(x, out, numbers_too)),
        Value::Object(o) => o.iter().for_each(|(k, x)| strings_of(x, out, numbers_too || k == "credentialSubject")),
        _ => {}
    }
}

/// strings shown at position k of the presentation (sub-proof k and the entries that point at it)
fn shown_at(doc: &Value, w3c: bool, k: usize) -> BTreeSet<String> {
    let mut s = BTreeSet::new();
    if w3c {
        if let Some(vc) = doc["verifiableCredential"].as_array().and_then(|a| a.get(k)) {
            strings_of(vc, &mut s, false);
        }
        strings_of(&doc["proof"], &mut s, false);
    } else {
        if let Some(sp) = doc["proof"]["proofs"].as_array().and_then(|a| a.get(k)) {
            strings_of(sp, &mut s, false);
        }
        strings_of(&doc["proof"]["aggregated_proof"], &mut s, false);
        let rp = &doc["requested_proof"];
        for m in ["revealed_attrs", "revealed_attr_groups", "unrevealed_attrs", "predicates"] {
            if let Some(o) = rp[m].as_object() {
                for (_, e) in o {
                    if e["sub_proof_index"].as_u64() == Some(k as u64) {
                        strings_of(e, &mut s, false);
                    }
                }
            }
        }
    }
    s
}

fn secret_strings(v: &Value) -> BTreeSet<String> {
    let mut s = BTreeSet::new();
    strings_of(v, &mut s, false);
    s.into_iter().filter(|x| x.len() > 20).collect()
}

pub fn run_job(w: &World, j: &PJob) -> Option<(String, Value)> {
    let req = j.req.build()?;
    let bctx = vw::build_ctx(w, &j.ctx);
    let nonempty: Vec<&Pick> = j.picks.iter().filter(|p| !(p.attrs.is_empty() && p.preds.is_empty())).collect();
    let (impl_sexp, doc, verify): (String, Option<Value>, Option<&'static str>) = if j.w3c {
        match vw::try_w3c_opt(w, &req, &j.picks, 0, j.multi_proof) {
            Ok((p, provs, agg)) => {
                // a serde hop: what a remote verifier receives
                let text = serde_json::to_string(&p).unwrap();
                match serde_json::from_str::<anoncreds::data_types::w3c::presentation::W3CPresentation>(&text) {
                    Ok(p2) => {
                        let v = vw::verify_w3c(&p2, &req, &bctx);
                        (format!("(ok {})", vw::w3c_sexp(w, &p2, &provs, &agg)), Some(serde_json::from_str(&text).unwrap()), Some(v))
                    }
                    // the library cannot read back what it wrote: the remote verifier has nothing to accept
                    Err(_) => (format!("(ok {})", vw::w3c_sexp(w, &p, &provs, &agg)), Some(serde_json::from_str(&text).unwrap()), Some("err")),
                }
            }
            Err(e) => (format!("({})", e), None, None),
        }
    } else {
        match vw::try_legacy(w, &req, &j.picks, &j.self_att, 0) {
            Ok((p, provs, agg)) => {
                let text = serde_json::to_string(&p).unwrap();
                let doc: Value = serde_json::from_str(&text).unwrap();
                // a serde hop: what a remote verifier receives; when the library cannot read back what it wrote the
                // remote verifier has nothing to accept
                let v = match serde_json::from_str::<anoncreds::data_types::presentation::Presentation>(&text) {
                    Ok(p2) => vw::verify_legacy(&p2, &req, &bctx),
                    Err(_) => "err",
                };
                (format!("(ok {})", vw::legacy_sexp(w, &doc, &provs, &agg)), Some(doc), Some(v))
            }
            Err(e) => (format!("({})", e), None, None),
        }
    };
    let mut leaks: Vec<String> = vec![];
    let mut secrets: Vec<String> = vec![];
    if let Some(doc) = &doc {
        for (k, p) in nonempty.iter().enumerate() {
            let shown = shown_at(doc, j.w3c, k);
            let c = &w.creds[p.cred];
            for (name, v) in c.legacy.values.0.iter() {
                if shown.contains(&v.raw) || shown.contains(&v.encoded) {
                    leaks.push(format!("({} {})", k, sx::s(name)));
                }
            }
        }
        let mut all = BTreeSet::new();
        strings_of(doc, &mut all, false);
        let ls: String = w.holders[0].try_clone().unwrap().try_into().unwrap();
        if all.contains(&ls) {
            secrets.push(sx::s("link_secret"));
        }
        for p in nonempty.iter() {
            let c = &w.creds[p.cred];
            let sig = serde_json::to_value(&c.legacy.signature).unwrap();
            if secret_strings(&sig).iter().any(|x| all.contains(x)) {
                secrets.push(sx::s("credential_signature"));
            }
            let scp = serde_json::to_value(&c.legacy.signature_correctness_proof).unwrap();
            if secret_strings(&scp).iter().any(|x| all.contains(x)) {
                secrets.push(sx::s("signature_correctness_proof"));
            }
            if let Some(li) = p.list {
                if let Some(st) = w.state_of(p) {
                    let wv = serde_json::to_value(&st.witness).unwrap();
                    if secret_strings(&wv).iter().any(|x| all.contains(x)) {
                        secrets.push(sx::s("revocation_witness"));
                    }
                }
            }
        }
    }
    let body = format!(
        "P {} {} {} 0 {} {} {} {} {} {} {}",
        if j.w3c { "W" } else { "L" },
        vw::request_sexp(&req),
        j.ctx.sexp(w),
        sx::list(j.picks.iter(), |p| present_sexp(w, p)),
        sx::list(j.self_att.iter(), |(k, v)| format!("({} {})", sx::s(k), sx::s(v))),
        impl_sexp,
        sx::l(&leaks),
        sx::l(&secrets),
        sx::opt(verify, |v| v.to_string()),
        sx::boolean(j.expect_honest)
    );
    Some((body, json!({"format": if j.w3c { "w3c" } else { "legacy" }, "class": j.class, "request": serde_json::to_value(&req).unwrap(), "picks": format!("{:?}", j.picks), "verify": verify})))
}

pub fn run(prop: &str, tier: &str, seed: u64, outdir: &str) {
    let mut out = Out::new(outdir);
    let mut r = Rng::new(seed ^ 0xC0FFEE ^ (prop.bytes().fold(0u64, |a, b| a * 131 + b as u64)));
    let thorough = tier == "thorough";
    let w = World::build(outdir);
    let n = if thorough { 6000 } else { 500 };
    let mut jobs = vec![];
    for i in 0..n {
        let mut rr = r.fork();
        jobs.push(gen_job(&mut rr, &w, i % 2 == 1, i));
    }
    // directed: names a credential does not hold, among them the name the link secret is signed under, as single
    // attributes and inside groups, revealed and not
    for w3c in [false, true] {
        for secret_name in ["master_secret", "Master_Secret", "MASTER SECRET", "ssn"] {
            for reveal in [true, false] {
                let single = ReqSpec::new(crate::vcases::NONCE).attr("a1", "name").attr("a2", secret_name);
                let group = ReqSpec::new(crate::vcases::NONCE).group("g1", &["name", secret_name]);
                let group_only = ReqSpec::new(crate::vcases::NONCE).attr("a1", "name").group("g1", &[secret_name]);
                for (tag, req, attrs) in [
                    ("single", single, vec![("a1".to_string(), true), ("a2".to_string(), reveal)]),
                    ("group", group, vec![("g1".to_string(), reveal)]),
                    ("group-of-one", group_only, vec![("a1".to_string(), true), ("g1".to_string(), reveal)]),
                ] {
                    jobs.push(PJob {
                        class: format!("faulty+name-not-held+{}+{}", tag, if vw::cvn(secret_name) == "master_secret" { "link-secret-name" } else { "other-name" }),
                        w3c,
                        req,
                        picks: vec![Pick { cred: 0, attrs, preds: vec![], list: None, inc: false }],
                        self_att: vec![],
                        ctx: VCtx::full(&w),
                        expect_honest: false,
                        multi_proof: false,
                    });
                }
            }
        }
    }
    let results = crate::par::par_map(&jobs, crate::par::ncpu(), |_, j| run_job(&w, j));
    for (j, res) in jobs.iter().zip(results) {
        match res {
            Some((body, human)) => {
                let id = out.next_id();
                out.case(&format!("({} {} {})", prop, id, body), &j.class.split('+').next().unwrap_or("").to_string(), || human);
                for t in j.class.split('+').skip(1) {
                    out.bump(&format!("ingredient:{}", t));
                }
            }
            None => out.bump("not-generated"),
        }
    }
    let _ = std::fs::remove_dir_all(format!("{}/tails", outdir));
    out.finish();
}
