//! C11: issuance is bound to offer, request, schema and link secret on both sides.
//! Real objects: two credential definitions over one schema (two keys), three offers (two for the
//! first definition), two link secrets. Every (definition, offer) pairing for request creation,
//! every (issuer key, offer, request, value set) combination for issuance, and every single
//! alteration of the issued credential / definition / link secret / request metadata for
//! processing, in legacy and W3C form; a credential that passes processing is presented and
//! verified.
//! Cases: (C11 id R cdkey (okey ononce) impl)
//!        (C11 id I (kid attrs) (okey ononce) (rkey rlink rblind roffernonce rnonce raltered) names impl)
//!        (C11 id P (skey values slink sblind snonce saltered) fed cdkey link mblind mnonce impl verify)
use crate::out::Out;
use crate::rng::Rng;
use crate::sx;
use crate::vw::cvn;
use crate::world::{self, CredDefSetup};
use anoncreds::data_types::cred_offer::CredentialOffer;
use anoncreds::data_types::cred_request::{CredentialRequest, CredentialRequestMetadata};
use anoncreds::data_types::credential::Credential;
use anoncreds::data_types::link_secret::LinkSecret;
use anoncreds::data_types::w3c::credential::W3CCredential;
use anoncreds::types::{MakeCredentialValues, PresentCredentials};
use anoncreds::{issuer, prover, verifier, w3c};
use serde_json::{json, Value};
use std::collections::HashMap;

fn ok<T, E>(r: std::thread::Result<Result<T, E>>) -> (&'static str, Option<T>) {
    match r {
        Ok(Ok(v)) => ("ok", Some(v)),
        Ok(Err(_)) => ("err", None),
        Err(_) => ("panic", None),
    }
}
macro_rules! guarded {
    ($e:expr) => {
        ok(std::panic::catch_unwind(std::panic::AssertUnwindSafe(|| $e)))
    };
}

const ATTRS: [&str; 3] = ["name", "age", "Zip Code"];

struct Offer {
    obj: CredentialOffer,
    key: usize,
    nonce: usize,
}
struct Req {
    obj: CredentialRequest,
    md: CredentialRequestMetadata,
    key: usize,
    link: usize,
    id: usize, // identity of blinding factor and request nonce
    offer_nonce: usize,
    altered: bool,
}

fn values(names: &[(&str, &str)]) -> anoncreds::types::CredentialValues {
    let mut mv = MakeCredentialValues::default();
    for (k, v) in names {
        mv.add_raw(*k, *v).unwrap();
    }
    mv.into()
}

fn bump_digit(s: &str) -> String {
    // change the last decimal digit of a number string
    let mut c: Vec<char> = s.chars().collect();
    if let Some(i) = c.iter().rposition(|x| x.is_ascii_digit()) {
        c[i] = if c[i] == '9' { '1' } else { ((c[i] as u8) + 1) as char };
    }
    c.into_iter().collect()
}

fn first_number_path(v: &mut Value) -> Option<&mut Value> {
    match v {
        Value::String(s) if s.len() > 20 && s.chars().all(|c| c.is_ascii_digit()) => Some(v),
        Value::Object(o) => {
            for (_, x) in o.iter_mut() {
                if let Some(r) = first_number_path(x) {
                    return Some(r);
                }
            }
            None
        }
        Value::Array(a) => {
            for x in a.iter_mut() {
                if let Some(r) = first_number_path(x) {
                    return Some(r);
                }
            }
            None
        }
        _ => None,
    }
}

pub fn run(tier: &str, seed: u64, outdir: &str) {
    let mut out = Out::new(outdir);
    let mut r = Rng::new(seed ^ 0xC11);
    let thorough = tier == "thorough";
    let setups: Vec<(&str, &str, bool)> = vec![("did:web:i.example/cd/a", "did:web:i.example", false), ("did:web:i.example/cd/b", "did:web:j.example", false), ("did:web:i.example/cd/r", "did:web:i.example", true)];
    let cds: Vec<CredDefSetup> = crate::par::par_map(&setups, 3, |_, s| world::make_cred_def("did:web:i.example/schema/1", "s", "1.0", "did:web:i.example", &ATTRS, s.0, s.1, s.2));
    let links = vec![prover::create_link_secret().unwrap(), prover::create_link_secret().unwrap()];
    let mk_offer = |k: usize| issuer::create_credential_offer(cds[k].schema_id.as_str().try_into().unwrap(), cds[k].cred_def_id.as_str().try_into().unwrap(), &cds[k].kcp).unwrap();
    let offers = vec![Offer { obj: mk_offer(0), key: 0, nonce: 0 }, Offer { obj: mk_offer(0), key: 0, nonce: 1 }, Offer { obj: mk_offer(1), key: 1, nonce: 2 }];
    let offer_sx = |o: &Offer| format!("({} {})", o.key, o.nonce);

    // ---- R: request creation over every (definition, offer) pairing ----
    let mut reqs: Vec<Req> = vec![];
    for k in 0..2usize {
        for o in &offers {
            for l in 0..2usize {
                let (res, v) = guarded!(prover::create_credential_request(Some("entropy"), None, &cds[k].cred_def, &links[l], "ls", &o.obj));
                let id = out.next_id();
                out.case(&format!("(C11 {} R {} {} {})", id, k, offer_sx(o), res), &format!("request:{}", res), || json!({"op": "request", "cred_def": k, "offer_key": o.key, "impl": res}));
                if let Some((rq, md)) = v {
                    reqs.push(Req { obj: rq, md, key: k, link: l, id: reqs.len(), offer_nonce: o.nonce, altered: false });
                }
            }
        }
    }
    // altered requests: blinded secret edited; correctness proof taken from another request
    let base = reqs.iter().position(|q| q.key == 0 && q.offer_nonce == 0 && q.link == 0).unwrap();
    let other = reqs.iter().position(|q| q.key == 0 && q.offer_nonce == 1 && q.link == 0).unwrap();
    {
        let mut doc = serde_json::to_value(&reqs[base].obj).unwrap();
        if let Some(x) = first_number_path(&mut doc["blinded_ms"]) {
            *x = json!(bump_digit(x.as_str().unwrap()));
        }
        if let Ok(obj) = serde_json::from_value::<CredentialRequest>(doc) {
            let md = serde_json::from_value(serde_json::to_value(&reqs[base].md).unwrap()).unwrap();
            reqs.push(Req { obj, md, key: 0, link: 0, id: reqs[base].id, offer_nonce: 0, altered: true });
        }
        let mut doc = serde_json::to_value(&reqs[base].obj).unwrap();
        doc["blinded_ms_correctness_proof"] = serde_json::to_value(&reqs[other].obj).unwrap()["blinded_ms_correctness_proof"].clone();
        if let Ok(obj) = serde_json::from_value::<CredentialRequest>(doc) {
            let md = serde_json::from_value(serde_json::to_value(&reqs[base].md).unwrap()).unwrap();
            reqs.push(Req { obj, md, key: 0, link: 0, id: reqs[base].id, offer_nonce: 0, altered: true });
        }
    }
    let req_sx = |q: &Req| format!("({} {} {} {} {} {})", q.key, q.link, q.id, q.offer_nonce, q.id, sx::boolean(q.altered));

    // ---- I: issuance ----
    let value_sets: Vec<(&str, Vec<(&str, &str)>)> = vec![
        ("exact", vec![("name", "Alex"), ("age", "28"), ("Zip Code", "007")]),
        ("case-and-space-variants", vec![("NAME", "Alex"), ("a g e", "28"), ("zipcode", "007")]),
        ("missing-one", vec![("name", "Alex"), ("age", "28")]),
        ("extra-one", vec![("name", "Alex"), ("age", "28"), ("Zip Code", "007"), ("height", "175")]),
        ("renamed-one", vec![("name", "Alex"), ("age", "28"), ("zip", "007")]),
        ("empty", vec![]),
        ("unicode-value", vec![("name", "Zoë ✓"), ("age", "-2147483648"), ("Zip Code", "")]),
    ];
    let attrs_sx = sx::list(ATTRS.iter(), |a| sx::s(&cvn(a)));
    let mut issued: Vec<(Credential, usize)> = vec![]; // credential, request index (honest issuances over key 0 / exact values)
    for k in 0..2usize {
        for o in &offers {
            for (qi, q) in reqs.iter().enumerate() {
                for (vname, vs) in &value_sets {
                    if !thorough && vname != &"exact" && !(k == 0 && o.nonce == 0 && qi == base) && !r.chance(1, 6) {
                        continue;
                    }
                    let (res, v) = guarded!(issuer::create_credential(&cds[k].cred_def, &cds[k].cred_def_priv, &o.obj, &q.obj, values(vs), None));
                    let id = out.next_id();
                    out.case(
                        &format!("(C11 {} I ({} {}) {} {} {} {})", id, k, attrs_sx, offer_sx(o), req_sx(q), sx::list(vs.iter(), |(n, _)| sx::s(n)), res),
                        &format!("issue:{}:{}", vname, res),
                        || json!({"op": "issue", "issuer_key": k, "offer": offer_sx(o), "request": req_sx(q), "values": vname, "impl": res}),
                    );
                    if let Some(c) = v {
                        if k == 0 && !q.altered && (*vname == "exact" || *vname == "unicode-value") && issued.len() < 6 {
                            issued.push((c, qi));
                        }
                    }
                }
            }
        }
    }

    // ---- I (W3C issuer): the subject is a W3C credentialSubject; a boolean is not a credential value ----
    let w3c_subjects: Vec<(&str, Value, Vec<&str>)> = vec![
        ("exact", json!({"name": "Alex", "age": 28, "Zip Code": "007"}), vec!["name", "age", "Zip Code"]),
        ("bool-claim-added", json!({"name": "Alex", "age": 28, "Zip Code": "007", "over18": true}), vec!["name", "age", "Zip Code", "over18"]),
        ("bool-instead-of-value", json!({"name": "Alex", "age": true, "Zip Code": "007"}), vec!["name", "Zip Code"]),
        ("missing-one", json!({"name": "Alex", "age": 28}), vec!["name", "age"]),
    ];
    for (vname, subj, names) in &w3c_subjects {
        let q = &reqs[base];
        let o = &offers[0];
        let Ok(cs) = serde_json::from_value::<anoncreds::data_types::w3c::credential_attributes::CredentialSubject>(subj.clone()) else { continue };
        let (res, _) = guarded!(w3c::issuer::create_credential(&cds[0].cred_def, &cds[0].cred_def_priv, &o.obj, &q.obj, cs, None, None));
        let id = out.next_id();
        out.case(
            &format!("(C11 {} I (0 {}) {} {} {} {})", id, attrs_sx, offer_sx(o), req_sx(q), sx::list(names.iter(), |n| sx::s(n)), res),
            &format!("issue-w3c:{}:{}", vname, res),
            || json!({"op": "issue-w3c", "subject": subj, "impl": res}),
        );
    }

    // ---- P: processing ----
    let schemas: HashMap<_, _> = [(anoncreds::data_types::schema::SchemaId::new_unchecked(cds[0].schema_id.clone()), cds[0].schema.clone())].into_iter().collect();
    let cred_defs: HashMap<_, _> = (0..2).map(|k| (anoncreds::data_types::cred_def::CredentialDefinitionId::new_unchecked(cds[k].cred_def_id.clone()), cds[k].cred_def.try_clone().unwrap())).collect();
    let present_and_verify = |c: &Credential, link: &LinkSecret| -> &'static str {
        let req: anoncreds::data_types::pres_request::PresentationRequest = serde_json::from_value(json!({"nonce": "123432421212", "name": "r", "version": "0.1",
            "requested_attributes": {"a": {"name": "NAME"}, "z": {"name": "zip code"}}, "requested_predicates": {}})).unwrap();
        let res = std::panic::catch_unwind(std::panic::AssertUnwindSafe(|| {
            let mut pc = PresentCredentials::default();
            let mut ac = pc.add_credential(c, None, None);
            ac.add_requested_attribute("a", true);
            ac.add_requested_attribute("z", false);
            let p = prover::create_presentation(&req, pc, None, link, &schemas, &cred_defs)?;
            verifier::verify_presentation(&p, &req, &schemas, &cred_defs, None, None, None)
        }));
        crate::vw::outcome_of(res)
    };
    let present_and_verify_w3c = |c: &W3CCredential, link: &LinkSecret| -> &'static str {
        let req: anoncreds::data_types::pres_request::PresentationRequest = serde_json::from_value(json!({"nonce": "123432421212", "name": "r", "version": "0.1",
            "requested_attributes": {"a": {"name": "NAME"}, "z": {"name": "zip code"}}, "requested_predicates": {}})).unwrap();
        let res = std::panic::catch_unwind(std::panic::AssertUnwindSafe(|| {
            let mut pc = PresentCredentials::default();
            let mut ac = pc.add_credential(c, None, None);
            ac.add_requested_attribute("a", true);
            ac.add_requested_attribute("z", false);
            let p = w3c::prover::create_presentation(&req, pc, link, &schemas, &cred_defs, None)?;
            w3c::verifier::verify_presentation(&p, &req, &schemas, &cred_defs, None, None, None)
        }));
        crate::vw::outcome_of(res)
    };
    let fed_sx = |c: &Credential| {
        let mut v: Vec<(String, String)> = c.values.0.iter().map(|(k, x)| (k.clone(), x.encoded.clone())).collect();
        v.sort();
        sx::list(v.iter(), |(k, e)| format!("({} {})", sx::s(k), sx::s(e)))
    };
    let signed_sx = |c: &Credential| {
        let mut v: Vec<(String, String)> = c.values.0.iter().map(|(k, x)| (cvn(k), x.encoded.clone())).collect();
        v.sort();
        sx::list(v.iter(), |(k, e)| format!("({} {})", sx::s(k), sx::s(e)))
    };
    let ms_of: Vec<String> = links.iter().map(|l| l.try_clone().unwrap().try_into().unwrap()).collect();
    let second = issued.iter().position(|(_, qi)| *qi != issued[0].1).unwrap_or(0);
    for (ii, (cred, qi)) in issued.iter().enumerate() {
        let q = &reqs[*qi];
        let signed = signed_sx(cred);
        let other_cred = &issued[if ii == second { 0 } else { second }].0;
        let other_q = &reqs[issued[if ii == second { 0 } else { second }].1];
        // alterations of the credential: (name, document edit, signature altered?)
        let edits: Vec<(&str, Box<dyn Fn(&mut Value)>, bool)> = vec![
            ("none", Box::new(|_d: &mut Value| {}), false),
            ("encoded-value", Box::new(|d: &mut Value| { let e = d["values"]["age"]["encoded"].as_str().unwrap_or("0").to_string(); d["values"]["age"]["encoded"] = json!(bump_digit(&format!("{}0", e))); }), false),
            ("raw-value-only", Box::new(|d: &mut Value| { d["values"]["name"]["raw"] = json!("Mallory"); }), false),
            ("encoded-value-blanked", Box::new(|d: &mut Value| { d["values"]["age"]["encoded"] = json!(""); }), false),
            ("encoded-value-blanked-text", Box::new(|d: &mut Value| { d["values"]["name"]["encoded"] = json!(""); }), false),
            ("signature-number", Box::new(|d: &mut Value| { if let Some(x) = first_number_path(&mut d["signature"]["p_credential"]) { *x = json!(bump_digit(x.as_str().unwrap())); } }), true),
            ("correctness-proof-of-another", Box::new(|d: &mut Value| { d["signature_correctness_proof"] = serde_json::to_value(&other_cred.signature_correctness_proof).unwrap(); }), true),
            ("signature-of-another", Box::new(|d: &mut Value| { d["signature"] = serde_json::to_value(&other_cred.signature).unwrap(); }), true),
            ("value-removed", Box::new(|d: &mut Value| { d["values"].as_object_mut().unwrap().remove("age"); }), false),
            ("value-added", Box::new(|d: &mut Value| { d["values"]["height"] = json!({"raw": "1", "encoded": "1"}); }), false),
            // an entry under the name the link secret is kept under: the holder's own link secret takes its place when the
            // values are handed to the CL layer, so it changes nothing - neither with the signing holder's secret in it ...
            ("value-added-master-secret-of-signer", Box::new(|d: &mut Value| { d["values"]["master_secret"] = json!({"raw": ms_of[q.link], "encoded": ms_of[q.link]}); }), false),
            // ... nor with another number
            ("value-added-master-secret-other", Box::new(|d: &mut Value| { d["values"]["MASTER_secret"] = json!({"raw": "12345", "encoded": "12345"}); }), false),
            // applied to the W3C document only (the legacy run of these is the unaltered credential)
            ("w3c-bool-claim-added", Box::new(|_d: &mut Value| {}), false),
            ("w3c-foreign-anoncreds-proof-first", Box::new(|_d: &mut Value| {}), true),
            // the proof member written as a single object instead of a one-element list (both are valid W3C JSON)
            ("w3c-proof-as-single-object", Box::new(|_d: &mut Value| {}), false),
        ];
        for (ename, edit, sig_altered) in &edits {
            for k in 0..2usize {
                for l in 0..2usize {
                    // metadata: own; another request's; own with the other's nonce; own with the other's blinding
                    let oq = reqs.iter().find(|x| x.id != q.id && !x.altered).unwrap();
                    let own = serde_json::to_value(&q.md).unwrap();
                    let oth = serde_json::to_value(&oq.md).unwrap();
                    let mut nonce_swapped = own.clone();
                    nonce_swapped["nonce"] = oth["nonce"].clone();
                    let mut blind_swapped = own.clone();
                    blind_swapped["link_secret_blinding_data"] = oth["link_secret_blinding_data"].clone();
                    let mds: Vec<(&str, Value, usize, usize)> = vec![("own", own.clone(), q.id, q.id), ("other", oth.clone(), oq.id, oq.id), ("nonce-of-other", nonce_swapped, q.id, oq.id), ("blinding-of-other", blind_swapped, oq.id, q.id)];
                    for (mname, mdoc, mb, mn) in mds {
                        let alterations = (*ename != "none") as u32 + (k != 0) as u32 + (l != q.link) as u32 + (mname != "own") as u32;
                        if alterations > 1 && !thorough && !r.chance(1, 8) && !(ename.starts_with("value-added-master-secret") && alterations == 2 && mname == "own" && k == 0) {
                            continue;
                        }
                        let md: CredentialRequestMetadata = serde_json::from_value(mdoc).unwrap();
                        // retry: the measured attempt is preceded, on the SAME object, by an attempt that is refused
                        // (other link secret and another request's metadata); processing is a function of its inputs,
                        // so the refused attempt must not change what the measured one answers
                        for (w3c_form, retry) in [(false, false), (true, false), (false, true), (true, true)] {
                            if retry && alterations > 1 {
                                continue;
                            }
                            if !w3c_form && ename.starts_with("w3c-") {
                                continue;
                            }
                            let mut doc = serde_json::to_value(cred).unwrap();
                            edit(&mut doc);
                            let Ok(mut c) = serde_json::from_value::<Credential>(doc) else { continue };
                            let (res, verify, fed) = if !w3c_form {
                                let fed = fed_sx(&c);
                                if retry {
                                    let omd: CredentialRequestMetadata = serde_json::from_value(oth.clone()).unwrap();
                                    let _ = guarded!(prover::process_credential(&mut c, &omd, &links[1 - l], &cds[k].cred_def, None));
                                    let _ = guarded!(prover::process_credential(&mut c, &md, &links[1 - l], &cds[1 - k].cred_def, None));
                                }
                                let (res, _) = guarded!(prover::process_credential(&mut c, &md, &links[l], &cds[k].cred_def, None));
                                let v = if res == "ok" { Some(present_and_verify(&c, &links[l])) } else { None };
                                (res, v, fed)
                            } else {
                                let Ok(wc0) = w3c::credential_conversion::credential_to_w3c(&c, &cds[k].issuer_id.as_str().try_into().unwrap(), None) else { continue };
                                // W3C-only alterations of the document
                                let mut wdoc = serde_json::to_value(&wc0).unwrap();
                                match *ename {
                                    "w3c-bool-claim-added" => {
                                        wdoc["credentialSubject"]["over18"] = json!(true);
                                    }
                                    "w3c-proof-as-single-object" => {
                                        if let Value::Array(a) = wdoc["proof"].take() {
                                            wdoc["proof"] = a.into_iter().next().unwrap_or(Value::Null);
                                        }
                                    }
                                    "w3c-foreign-anoncreds-proof-first" => {
                                        let Ok(ow) = w3c::credential_conversion::credential_to_w3c(other_cred, &cds[k].issuer_id.as_str().try_into().unwrap(), None) else { continue };
                                        let take = |v: &mut Value| match v["proof"].take() { Value::Array(mut a) => a.remove(0), x => x };
                                        let mut od = serde_json::to_value(&ow).unwrap();
                                        let foreign = take(&mut od);
                                        let own = take(&mut wdoc);
                                        wdoc["proof"] = json!([foreign, own]);
                                    }
                                    _ => {}
                                }
                                let Ok(mut wc) = serde_json::from_value::<W3CCredential>(wdoc) else { continue };
                                // what the W3C form feeds to the CL layer: the subject re-encoded
                                let fed = match w3c::credential_conversion::credential_from_w3c(&wc) {
                                    Ok(c2) => fed_sx(&c2),
                                    // a subject the conversion refuses is not the signed value set
                                    Err(_) => format!("(({} {}))", sx::s("unencodable"), sx::s("x")),
                                };
                                if retry {
                                    let omd: CredentialRequestMetadata = serde_json::from_value(oth.clone()).unwrap();
                                    let _ = guarded!(w3c::prover::process_credential(&mut wc, &omd, &links[1 - l], &cds[k].cred_def, None));
                                    let _ = guarded!(w3c::prover::process_credential(&mut wc, &md, &links[1 - l], &cds[1 - k].cred_def, None));
                                }
                                let (res, _) = guarded!(w3c::prover::process_credential(&mut wc, &md, &links[l], &cds[k].cred_def, None));
                                let v = if res == "ok" { Some(present_and_verify_w3c(&wc, &links[l])) } else { None };
                                (res, v, fed)
                            };
                            let id = out.next_id();
                            if std::env::var("AVH_DEBUG").is_ok() && *sig_altered && res == "ok" {
                                eprintln!("C11DEBUG id={} edit={} k={} l={} md={} w3c={} retry={} q.link={} q.id={} oq.link={} oq.id={} verify={:?}", id, ename, k, l, mname, w3c_form, retry, q.link, q.id, oq.link, oq.id, verify);
                            }
                            out.case(
                                &format!(
                                    "(C11 {} P {} {} {} {} {} {} {} {})",
                                    id,
                                    // the library works on the FIRST AnonCreds proof of a W3C credential: with a foreign one listed
                                    // first, what is processed is that other credential's signature (unaltered) over this subject
                                    if *ename == "w3c-foreign-anoncreds-proof-first" {
                                        format!("(0 {} {} {} {} f)", signed_sx(other_cred), other_q.link, other_q.id, other_q.id)
                                    } else {
                                        format!("(0 {} {} {} {} {})", signed, q.link, q.id, q.id, sx::boolean(*sig_altered))
                                    },
                                    fed, k, l, mb, mn, res, sx::opt(verify, |v| v.to_string())
                                ),
                                &format!("process:{}{}:{}:{}", if w3c_form { "w3c" } else { "legacy" }, if retry { "-after-refused-attempts" } else { "" }, if alterations == 0 { "honest" } else if alterations == 1 { "one-alteration" } else { "several-alterations" }, res),
                                || json!({"op": "process", "form": if w3c_form { "w3c" } else { "legacy" }, "edit": ename, "cred_def": k, "link": l, "metadata": mname, "impl": res, "verify": verify}),
                            );
                            out.bump(&format!("alteration:{}", if *ename != "none" { ename } else if k != 0 { "other-cred-def" } else if l != q.link { "other-link-secret" } else if mname != "own" { mname } else { "none" }));
                        }
                    }
                }
            }
        }
    }
    // ---- P, revocable: issuance against a status list in both issuance modes, processed WITH the registry definition ----
    {
        let tails = format!("{}/tails-c11", outdir);
        let reg = world::make_registry(&cds[2], "did:web:i.example/reg/r", "r1", 6, &tails);
        let schemas_r: HashMap<_, _> = [(anoncreds::data_types::schema::SchemaId::new_unchecked(cds[2].schema_id.clone()), cds[2].schema.clone())].into_iter().collect();
        let cred_defs_r: HashMap<_, _> = [(anoncreds::data_types::cred_def::CredentialDefinitionId::new_unchecked(cds[2].cred_def_id.clone()), cds[2].cred_def.try_clone().unwrap())].into_iter().collect();
        let preq: anoncreds::data_types::pres_request::PresentationRequest = serde_json::from_value(json!({"nonce": "123432421212", "name": "r", "version": "0.1",
            "requested_attributes": {"a": {"name": "NAME"}}, "requested_predicates": {}})).unwrap();
        for by_default in [true, false] {
            let list = world::initial_list(&cds[2], &reg, by_default, Some(100));
            for idx in [1u32, 3] {
                for l in 0..2usize {
                    for w3c_form in [false, true] {
                        let offer = issuer::create_credential_offer(cds[2].schema_id.as_str().try_into().unwrap(), cds[2].cred_def_id.as_str().try_into().unwrap(), &cds[2].kcp).unwrap();
                        let Ok((req, md)) = prover::create_credential_request(Some("entropy"), None, &cds[2].cred_def, &links[l], "ls", &offer) else { continue };
                        let vals = values(&[("name", "Alex"), ("age", "28"), ("Zip Code", "007")]);
                        let rc = anoncreds::types::CredentialRevocationConfig { reg_def: &reg.def, reg_def_private: &reg.def_priv, status_list: &list, registry_idx: idx };
                        let Ok(mut cred) = issuer::create_credential(&cds[2].cred_def, &cds[2].cred_def_priv, &offer, &req, vals, Some(rc)) else { continue };
                        let signed = signed_sx(&cred);
                        let fed = fed_sx(&cred);
                        // the received credential with the revocation witness of ANOTHER credential of the registry, the optional
                        // registry id kept or left out, processed with the registry definition: never accepted
                        if !w3c_form {
                            let other = (|| {
                                let (req2, _md2) = prover::create_credential_request(Some("entropy"), None, &cds[2].cred_def, &links[l], "ls", &offer).ok()?;
                                let rc2 = anoncreds::types::CredentialRevocationConfig { reg_def: &reg.def, reg_def_private: &reg.def_priv, status_list: &list, registry_idx: idx + 1 };
                                issuer::create_credential(&cds[2].cred_def, &cds[2].cred_def_priv, &offer, &req2, values(&[("name", "Alex"), ("age", "28"), ("Zip Code", "007")]), Some(rc2)).ok()
                            })();
                            if let Some(other) = other {
                                let ow = serde_json::to_value(&other).unwrap()["witness"].clone();
                                for drop_id in [false, true] {
                                    let mut v = serde_json::to_value(&cred).unwrap();
                                    // (the same witness under the crate's own equality - e.g. both the empty product, written differently - is no tampering)
                                    let same = match (serde_json::from_value::<anoncreds::cl::Witness>(v["witness"].clone()), serde_json::from_value::<anoncreds::cl::Witness>(ow.clone())) {
                                        (Ok(a), Ok(b)) => a == b,
                                        _ => true,
                                    };
                                    if ow.is_null() || same {
                                        continue;
                                    }
                                    v["witness"] = ow.clone();
                                    if drop_id {
                                        v.as_object_mut().unwrap().remove("rev_reg_id");
                                    }
                                    let Ok(mut tampered) = serde_json::from_value::<anoncreds::types::Credential>(v) else { continue };
                                    let (res, _) = guarded!(prover::process_credential(&mut tampered, &md, &links[l], &cds[2].cred_def, Some(&reg.def)));
                                    if std::env::var("AVH_DEBUG").is_ok() {
                                        eprintln!("FW by_default={} idx={} l={} drop_id={} res={}", by_default, idx, l, drop_id, res);
                                    }
                                    let id = out.next_id();
                                    let rid = 1000 + id as usize;
                                    out.case(
                                        &format!("(C11 {} P (2 {} {} {} {} t) {} 2 {} {} {} {} ())", id, signed, l, rid, rid, fed, l, rid, rid, res),
                                        &format!("process:legacy:revocable-foreign-witness{}:{}", if drop_id { "-registry-id-left-out" } else { "" }, res),
                                        || json!({"op": "process", "form": "legacy", "revocable": true, "witness": "of another credential", "rev_reg_id_removed": drop_id, "impl": res}),
                                    );
                                }
                            }
                        }
                        let (res, verify) = if !w3c_form {
                            let (res, _) = guarded!(prover::process_credential(&mut cred, &md, &links[l], &cds[2].cred_def, Some(&reg.def)));
                            let v = if res == "ok" {
                                let r = std::panic::catch_unwind(std::panic::AssertUnwindSafe(|| {
                                    let mut pc = PresentCredentials::default();
                                    let mut ac = pc.add_credential(&cred, None, None);
                                    ac.add_requested_attribute("a", true);
                                    let p = prover::create_presentation(&preq, pc, None, &links[l], &schemas_r, &cred_defs_r)?;
                                    verifier::verify_presentation(&p, &preq, &schemas_r, &cred_defs_r, None, None, None)
                                }));
                                Some(crate::vw::outcome_of(r))
                            } else { None };
                            (res, v)
                        } else {
                            let Ok(mut wc) = w3c::credential_conversion::credential_to_w3c(&cred, &cds[2].issuer_id.as_str().try_into().unwrap(), None) else { continue };
                            let (res, _) = guarded!(w3c::prover::process_credential(&mut wc, &md, &links[l], &cds[2].cred_def, Some(&reg.def)));
                            let v = if res == "ok" {
                                let r = std::panic::catch_unwind(std::panic::AssertUnwindSafe(|| {
                                    let mut pc = PresentCredentials::default();
                                    let mut ac = pc.add_credential(&wc, None, None);
                                    ac.add_requested_attribute("a", true);
                                    let p = w3c::prover::create_presentation(&preq, pc, &links[l], &schemas_r, &cred_defs_r, None)?;
                                    w3c::verifier::verify_presentation(&p, &preq, &schemas_r, &cred_defs_r, None, None, None)
                                }));
                                Some(crate::vw::outcome_of(r))
                            } else { None };
                            (res, v)
                        };
                        let id = out.next_id();
                        // an honest flow: key 2 signed, for link l, blinding / nonce identity 1000 + id (its own request)
                        let rid = 1000 + id as usize;
                        out.case(
                            &format!("(C11 {} P (2 {} {} {} {} f) {} 2 {} {} {} {} {})", id, signed, l, rid, rid, fed, l, rid, rid, res, sx::opt(verify, |v| v.to_string())),
                            &format!("process:{}:revocable-{}:{}", if w3c_form { "w3c" } else { "legacy" }, if by_default { "issued-by-default" } else { "issued-on-demand" }, res),
                            || json!({"op": "process", "form": if w3c_form { "w3c" } else { "legacy" }, "revocable": true, "issuance_by_default": by_default, "index": idx, "link": l, "impl": res, "verify": verify}),
                        );
                    }
                }
            }
        }
        let _ = std::fs::remove_dir_all(&tails);
    }
    out.finish();
}
