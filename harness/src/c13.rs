//! C13: attribute encoding — run every encoding site of the library on the same string.
use crate::out::Out;
use crate::rng::Rng;
use crate::sx;
use anoncreds::data_types::credential::{AttributeValues, CredentialValues, RawCredentialValues};
use anoncreds::data_types::w3c::credential_attributes::{CredentialAttributeValue, CredentialSubject};
use anoncreds::types::MakeCredentialValues;
use ffi_support::FfiStr;
use serde_json::json;
use std::collections::HashMap;
use std::ffi::{CStr, CString};
use std::os::raw::c_char;

#[repr(C)]
struct FfiStrListRaw {
    count: usize,
    data: *const FfiStr<'static>,
}
extern "C" {
    fn anoncreds_encode_credential_attributes(list: FfiStrListRaw, result_p: *mut *const c_char) -> usize;
    fn anoncreds_string_free(s: *mut c_char);
}

fn caught<T>(f: impl FnOnce() -> Result<T, String> + std::panic::UnwindSafe) -> Result<T, String> {
    match std::panic::catch_unwind(f) {
        Ok(r) => r,
        Err(_) => Err("PANIC".into()),
    }
}

pub fn sites(inp: &str) -> Vec<(&'static str, Result<String, String>)> {
    let mut v = vec![];
    let s = inp.to_string();
    v.push(("helpers", {
        let s = s.clone();
        caught(move || anoncreds::verif::encode_credential_attribute(&s).map_err(|e| e.to_string()))
    }));
    v.push(("add_raw", {
        let s = s.clone();
        caught(move || {
            let mut m = MakeCredentialValues::default();
            m.add_raw("a", s).map_err(|e| e.to_string())?;
            let cv: CredentialValues = m.into();
            Ok(cv.0["a"].encoded.clone())
        })
    }));
    v.push(("raw_values", {
        let s = s.clone();
        caught(move || {
            let mut h = HashMap::new();
            h.insert("a".to_string(), s);
            let r = RawCredentialValues(h);
            let cv = r.encode().map_err(|e| e.to_string())?;
            Ok(cv.0["a"].encoded.clone())
        })
    }));
    v.push(("subject_string", {
        let s = s.clone();
        caught(move || {
            let mut h = HashMap::new();
            h.insert("a".to_string(), CredentialAttributeValue::String(s));
            let cv = anoncreds::verif::subject_encode(&CredentialSubject(h)).map_err(|e| e.to_string())?;
            Ok(cv.0["a"].encoded.clone())
        })
    }));
    // conversion path: CredentialValues -> CredentialSubject (number detection) -> encode
    v.push(("conversion", {
        let s = s.clone();
        caught(move || {
            let mut h = HashMap::new();
            h.insert("a".to_string(), AttributeValues { raw: s, encoded: "0".into() });
            let subj = CredentialSubject::from(&CredentialValues(h));
            let cv = anoncreds::verif::subject_encode(&subj).map_err(|e| e.to_string())?;
            Ok(cv.0["a"].encoded.clone())
        })
    }));
    // W3C issuance value builder: number detection, then the subject is encoded
    v.push(("make_attrs", {
        let s = s.clone();
        caught(move || {
            let mut m = anoncreds::w3c::types::MakeCredentialAttributes::default();
            m.add("a", s);
            let subj: CredentialSubject = m.into();
            let cv = anoncreds::verif::subject_encode(&subj).map_err(|e| e.to_string())?;
            Ok(cv.0["a"].encoded.clone())
        })
    }));
    if !inp.as_bytes().contains(&0) {
        v.push(("ffi", {
            let s = s.clone();
            caught(move || {
                let c = CString::new(s).unwrap();
                let item = unsafe { FfiStr::from_raw(c.as_ptr()) };
                let items = [item];
                let mut out: *const c_char = std::ptr::null();
                let code = unsafe {
                    anoncreds_encode_credential_attributes(FfiStrListRaw { count: 1, data: items.as_ptr() as *const _ }, &mut out)
                };
                if code != 0 {
                    return Err(format!("code {}", code));
                }
                let r = unsafe { CStr::from_ptr(out) }.to_str().unwrap().to_string();
                unsafe { anoncreds_string_free(out as *mut c_char) };
                Ok(r)
            })
        }));
    }
    v
}

fn emit(out: &mut Out, class: &str, inp: &str) {
    let res = sites(inp);
    let id = out.next_id();
    let outs = sx::list(res.iter(), |(name, r)| match r {
        Ok(o) => sx::l(&[name.to_string(), sx::s(o)]),
        Err(_) => sx::l(&[name.to_string(), "!".to_string()]),
    });
    let norm = anoncreds::verif::normalize_encoded_attr(inp);
    let line = sx::l(&["C13".into(), sx::n(id), sx::s(inp), outs, sx::s(&norm)]);
    let shown: String = inp.chars().take(80).collect();
    let first = res[0].1.clone().unwrap_or_else(|e| e);
    out.case(&line, class, || json!({"input": shown, "input_len": inp.len(), "impl_encoded": first, "sites": res.len()}));
}

fn rand_unicode(rng: &mut Rng, len: usize) -> String {
    let mut s = String::new();
    for _ in 0..len {
        let c = match rng.below(10) {
            0 => rng.below(32) as u32,                      // control
            1..=4 => 32 + rng.below(95) as u32,             // printable ASCII
            5 => 48 + rng.below(10) as u32,                 // digit
            6 => 0x80 + rng.below(0x700) as u32,            // 2-byte
            7 => 0x800 + rng.below(0xD000 - 0x800) as u32,  // 3-byte
            8 => 0x10000 + rng.below(0xFFFFF) as u32,       // 4-byte
            _ => *rng.pick(&[0xFF10u32, 0xFF15, 0x0660, 0x0969, 0x2212, 0xFF0B, 0x00A0, 0x2003, 0x200B]), // unicode digits/signs/spaces
        };
        if let Some(ch) = char::from_u32(c) {
            s.push(ch);
        }
    }
    s
}

pub fn run(tier: &str, seed: u64, outdir: &str) {
    let thorough = tier == "thorough";
    let mut out = Out::new(outdir);
    let mut rng = Rng::new(seed ^ 0xC13);

    // corpus: fixed edge strings (run first, seed independent)
    let corpus = [
        "", "0", "-0", "+0", "+", "-", "+-1", "-+1", "--1", "++1", "007", "-007", "+007", "00000000000000000000000000005",
        "2147483647", "2147483648", "-2147483648", "-2147483649", "+2147483647", "+2147483648", "02147483647", "0002147483648",
        "21474836470", "4294967296", "-4294967296", "99999999999999999999", " 1", "1 ", "1\n", "\t1", "1e3", "1.0", "0.0", "1_000", "0x10",
        "５", "१२३", "−5", "＋5", "1\u{0}", "\u{0}", "\u{1}", "\u{2}", "None", "SLC", "UT", "101 Wilson Lane", "101 Tela Lane", "87121",
        "true", "null", "NaN", "inf", "١٢٣", "1٢", "-", "+ 1", "- 1", "1+", "1-", "+1+",
    ];
    for c in corpus {
        emit(&mut out, "corpus", c);
    }

    // exhaustive windows around 0 and the i32 boundaries, in all sign / padding / whitespace forms
    let w: i64 = if thorough { 3000 } else { 300 };
    let centers: [i64; 5] = [0, 2147483647, -2147483648, 4294967296, -4294967296];
    for c in centers {
        for d in -w..=w {
            let v = c + d;
            let a = v.unsigned_abs();
            let forms: Vec<(String, &str)> = vec![
                (format!("{}", v), "window:plain"),
                (if v >= 0 { format!("+{}", a) } else { format!("-0{}", a) }, "window:sign-or-pad"),
                (if v >= 0 { format!("00{}", a) } else { format!("-000{}", a) }, "window:zero-padded"),
            ];
            for (s, class) in forms {
                emit(&mut out, class, &s);
            }
            if d % 50 == 0 {
                for (s, class) in [
                    (format!(" {}", v), "window:space"),
                    (format!("{} ", v), "window:space"),
                    (format!("{}.0", v), "window:decimal"),
                    (format!("+-{}", a), "window:double-sign"),
                    (format!("{}\u{0}", v), "window:nul"),
                ] {
                    emit(&mut out, class, &s);
                }
            }
        }
    }

    // random digit strings with optional sign, lengths 1..=24
    let n_digits = if thorough { 200_000 } else { 6_000 };
    for _ in 0..n_digits {
        let cap = if rng.chance(1, 4) { 24 } else { 11 };
        let len = 1 + rng.below(cap) as usize;
        let mut s = String::new();
        match rng.below(4) {
            0 => s.push('-'),
            1 => s.push('+'),
            _ => {}
        }
        for i in 0..len {
            if i == 0 && rng.chance(1, 5) {
                s.push('0');
            } else {
                s.push((b'0' + rng.below(10) as u8) as char);
            }
        }
        if rng.chance(1, 30) {
            let pos = rng.below(s.len() as u64 + 1) as usize;
            s.insert(pos, *rng.pick(&[' ', 'a', '.', '-', '+', '_', '٣']));
        }
        emit(&mut out, "random:digits", &s);
    }

    // random unicode / control strings
    let n_uni = if thorough { 200_000 } else { 4_000 };
    for _ in 0..n_uni {
        let cap = if rng.chance(1, 10) { 200 } else { 12 };
        let len = rng.below(cap) as usize;
        let s = rand_unicode(&mut rng, len);
        emit(&mut out, "random:unicode", &s);
    }

    // long strings (several SHA-256 blocks; block-boundary lengths)
    for len in [54usize, 55, 56, 57, 63, 64, 65, 119, 120, 127, 128, 129, 1000, 4096, 65536] {
        let s: String = (0..len).map(|i| (b'a' + (i % 26) as u8) as char).collect();
        emit(&mut out, "long", &s);
        let d: String = (0..len).map(|i| (b'0' + (i % 10) as u8) as char).collect();
        emit(&mut out, "long", &d);
    }
    if thorough {
        let s: String = (0..(1usize << 20)).map(|i| (b'a' + (i % 26) as u8) as char).collect();
        emit(&mut out, "long", &s);
    }
    out.finish();
}
