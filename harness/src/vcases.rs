//! Verification cases for C01 C02 C03 C05 C06 C08 C12: honest, cross-request and structurally
//! mutated presentations in both formats, verified by the real library; one abstract case per line.
use crate::out::Out;
use crate::rng::Rng;
use crate::vw::{self, AggProv, Pick, Prov, VCtx, World};
use anoncreds::data_types::pres_request::PresentationRequest;
use anoncreds::data_types::presentation::Presentation;
use anoncreds::data_types::w3c::credential::CredentialProof;
use anoncreds::data_types::w3c::credential_attributes::CredentialAttributeValue;
use anoncreds::data_types::w3c::one_or_many::OneOrMany;
use anoncreds::data_types::w3c::presentation::W3CPresentation;
use anoncreds::data_types::w3c::proof::{DataIntegrityProof, ProofPurpose};
use serde_json::{json, Value};

pub type Iv = (Option<u64>, Option<u64>);

#[derive(Clone, Debug, Default)]
pub struct ReqSpec {
    pub nonce: String,
    pub attrs: Vec<(String, Value)>, // referent -> attribute info JSON
    pub preds: Vec<(String, Value)>,
    pub nr: Option<Iv>,
}

impl ReqSpec {
    pub fn new(nonce: &str) -> Self {
        ReqSpec { nonce: nonce.into(), ..Default::default() }
    }
    pub fn attr(mut self, r: &str, name: &str) -> Self {
        self.attrs.push((r.into(), json!({"name": name})));
        self
    }
    pub fn group(mut self, r: &str, names: &[&str]) -> Self {
        self.attrs.push((r.into(), json!({"names": names})));
        self
    }
    pub fn pred(mut self, r: &str, name: &str, op: &str, v: i64) -> Self {
        self.preds.push((r.into(), json!({"name": name, "p_type": op, "p_value": v})));
        self
    }
    pub fn restr(mut self, r: &str, q: Value) -> Self {
        for (k, v) in self.attrs.iter_mut().chain(self.preds.iter_mut()) {
            if k == r {
                v["restrictions"] = q.clone();
            }
        }
        self
    }
    pub fn local(mut self, r: &str, iv: Iv) -> Self {
        for (k, v) in self.attrs.iter_mut().chain(self.preds.iter_mut()) {
            if k == r {
                v["non_revoked"] = vw::interval_json(&iv);
            }
        }
        self
    }
    pub fn global(mut self, iv: Iv) -> Self {
        self.nr = Some(iv);
        self
    }
    pub fn strip_intervals(&self) -> Self {
        let mut s = self.clone();
        s.nr = None;
        for (_, v) in s.attrs.iter_mut().chain(s.preds.iter_mut()) {
            v.as_object_mut().unwrap().remove("non_revoked");
        }
        s
    }
    pub fn strip_restrictions(&self) -> Self {
        let mut s = self.clone();
        for (_, v) in s.attrs.iter_mut().chain(s.preds.iter_mut()) {
            v.as_object_mut().unwrap().remove("restrictions");
        }
        s
    }
    /// the JSON document of the request (what a verifier application writes down)
    pub fn doc(&self) -> Value {
        let mut a = serde_json::Map::new();
        for (k, v) in &self.attrs {
            a.insert(k.clone(), v.clone());
        }
        let mut p = serde_json::Map::new();
        for (k, v) in &self.preds {
            p.insert(k.clone(), v.clone());
        }
        let mut doc = json!({"nonce": self.nonce, "name": "req", "version": "0.1", "ver": "2.0", "requested_attributes": a, "requested_predicates": p});
        if let Some(iv) = &self.nr {
            doc["non_revoked"] = vw::interval_json(iv);
        }
        doc
    }
    pub fn build(&self) -> Option<PresentationRequest> {
        let mut a = serde_json::Map::new();
        for (k, v) in &self.attrs {
            a.insert(k.clone(), v.clone());
        }
        let mut p = serde_json::Map::new();
        for (k, v) in &self.preds {
            p.insert(k.clone(), v.clone());
        }
        let mut doc = json!({"nonce": self.nonce, "name": "req", "version": "0.1", "ver": "2.0", "requested_attributes": a, "requested_predicates": p});
        if let Some(iv) = &self.nr {
            doc["non_revoked"] = vw::interval_json(iv);
        }
        serde_json::from_value(doc).ok()
    }
}

#[derive(Clone, Debug)]
pub enum Mut {
    // ---- legacy, on the JSON document
    IdentSet(usize, &'static str, Value), // Value::Null removes the field
    IdentDup(usize),
    IdentDrop(usize),
    ProofDup(usize),
    ProofDrop(usize),
    ProofSwap(usize, usize),
    Reindex(&'static str, String, u64), // map name, referent, new sub_proof_index
    MoveRef(&'static str, &'static str, String), // from map, to map, referent (payload adapted)
    RemoveRef(&'static str, String),
    AddSelf(String, String),
    AddUnrev(String, u64), // referent (possibly served elsewhere already), sub_proof_index
    EditRevealed(String, Option<String>, Option<String>), // referent, raw, encoded
    EditGroupValue(String, String, Option<String>, Option<String>),
    AddGroupValue(String, String, String, String), // referent, extra name, raw, encoded
    RenameGroupKey(String, String, String),        // referent, old name, new name
    DupGroupKey(String, String, String),           // referent, existing name, additional name with the same value
    EditProofRevealed(usize, String, String), // sub-proof, attr name, new encoded value inside the CL proof
    EditProofPred(usize, &'static str, i64),   // rewrite the first predicate inside sub-proof i
    AlterSub(usize),                          // change a number of sub-proof i
    AlterAgg,
    // ---- W3C, on the typed presentation
    WSubjectSet(usize, String, Value), // credential index, key, new value (Null removes)
    WIssuer(usize, String),
    WIdent(usize, &'static str, Value), // proof-value identifier field
    WMethod(usize, String),
    WCredSwap(usize, usize),
    WCredDrop(usize),
    WCredAppend(Value, vw::Prov), // a credential (with its proof) taken from another W3C presentation, appended
    /// a copy of entry i, its proof made unusable as a credential presentation proof (purpose `authentication`), put in front
    WFrontCopyUnusable(usize),
    /// the proof of entry i becomes a LIST: a copy with purpose `authentication` first, then the genuine proof, its
    /// verification method replaced when one is given
    WProofList(usize, Option<String>),
}

fn bump_decimal(s: &str) -> String {
    // change the last digit of a decimal string
    let mut c: Vec<char> = s.chars().collect();
    if let Some(l) = c.last_mut() {
        *l = char::from_digit((l.to_digit(10).unwrap_or(0) + 1) % 10, 10).unwrap();
    }
    c.into_iter().collect()
}

fn apply_legacy(doc: &mut Value, provs: &mut Vec<Prov>, agg: &mut AggProv, m: &Mut) {
    match m {
        Mut::IdentSet(i, f, v) => {
            if let Some(id) = doc["identifiers"].get_mut(*i) {
                if v.is_null() {
                    id.as_object_mut().unwrap().remove(*f);
                } else {
                    id[*f] = v.clone();
                }
            }
        }
        Mut::IdentDup(i) => {
            let a = doc["identifiers"].as_array_mut().unwrap();
            if let Some(x) = a.get(*i).cloned() {
                a.push(x);
            }
        }
        Mut::IdentDrop(i) => {
            let a = doc["identifiers"].as_array_mut().unwrap();
            if *i < a.len() {
                a.remove(*i);
            }
        }
        Mut::ProofDup(i) => {
            let a = doc["proof"]["proofs"].as_array_mut().unwrap();
            if let Some(x) = a.get(*i).cloned() {
                a.push(x);
                let p = provs[*i].clone();
                provs.push(p);
            }
        }
        Mut::ProofDrop(i) => {
            let a = doc["proof"]["proofs"].as_array_mut().unwrap();
            if *i < a.len() {
                a.remove(*i);
                provs.remove(*i);
            }
        }
        Mut::ProofSwap(i, j) => {
            let a = doc["proof"]["proofs"].as_array_mut().unwrap();
            if *i < a.len() && *j < a.len() {
                a.swap(*i, *j);
                provs.swap(*i, *j);
            }
        }
        Mut::Reindex(map, r, idx) => {
            if let Some(e) = doc["requested_proof"][*map].get_mut(r) {
                e["sub_proof_index"] = json!(idx);
            }
        }
        Mut::MoveRef(from, to, r) => {
            let e = doc["requested_proof"][*from].as_object_mut().and_then(|m| m.remove(r));
            if let Some(e) = e {
                let idx = e["sub_proof_index"].clone();
                let payload = match *to {
                    "revealed_attrs" => json!({"sub_proof_index": if idx.is_null() { json!(0) } else { idx }, "raw": e["raw"].as_str().unwrap_or("x"), "encoded": e["encoded"].as_str().unwrap_or("1")}),
                    "self_attested_attrs" => json!(e["raw"].as_str().unwrap_or("self")),
                    _ => json!({"sub_proof_index": if idx.is_null() { json!(0) } else { idx }}),
                };
                doc["requested_proof"][*to][r] = payload;
            }
        }
        Mut::RemoveRef(map, r) => {
            if let Some(m) = doc["requested_proof"][*map].as_object_mut() {
                m.remove(r);
            }
        }
        Mut::AddSelf(r, v) => {
            doc["requested_proof"]["self_attested_attrs"][r] = json!(v);
        }
        Mut::AddUnrev(r, i) => {
            doc["requested_proof"]["unrevealed_attrs"][r] = json!({"sub_proof_index": i});
        }
        Mut::EditRevealed(r, raw, enc) => {
            if let Some(e) = doc["requested_proof"]["revealed_attrs"].get_mut(r) {
                if let Some(x) = raw {
                    e["raw"] = json!(x);
                }
                if let Some(x) = enc {
                    e["encoded"] = json!(x);
                }
            }
        }
        Mut::EditGroupValue(r, n, raw, enc) => {
            if let Some(e) = doc["requested_proof"]["revealed_attr_groups"].get_mut(r).and_then(|g| g["values"].get_mut(n)) {
                if let Some(x) = raw {
                    e["raw"] = json!(x);
                }
                if let Some(x) = enc {
                    e["encoded"] = json!(x);
                }
            }
        }
        Mut::AddGroupValue(r, n, raw, enc) => {
            if let Some(g) = doc["requested_proof"]["revealed_attr_groups"].get_mut(r) {
                g["values"][n] = json!({"raw": raw, "encoded": enc});
            }
        }
        Mut::RenameGroupKey(r, old, new) => {
            if let Some(vals) = doc["requested_proof"]["revealed_attr_groups"].get_mut(r).and_then(|g| g["values"].as_object_mut()) {
                if let Some(v) = vals.remove(old) {
                    vals.insert(new.clone(), v);
                }
            }
        }
        Mut::DupGroupKey(r, old, new) => {
            if let Some(vals) = doc["requested_proof"]["revealed_attr_groups"].get_mut(r).and_then(|g| g["values"].as_object_mut()) {
                if let Some(v) = vals.get(old).cloned() {
                    vals.insert(new.clone(), v);
                }
            }
        }
        Mut::EditProofRevealed(i, n, v) => {
            if let Some(e) = doc["proof"]["proofs"].get_mut(*i) {
                if !e["primary_proof"]["eq_proof"]["revealed_attrs"][n].is_null() {
                    if e["primary_proof"]["eq_proof"]["revealed_attrs"][n] != json!(v) {
                        provs[*i].altered = true;
                    }
                    e["primary_proof"]["eq_proof"]["revealed_attrs"][n] = json!(v);
                }
            }
        }
        Mut::EditProofPred(i, t, v) => {
            if let Some(e) = doc["proof"]["proofs"].get_mut(*i) {
                if let Some(g) = e["primary_proof"]["ge_proofs"].get_mut(0) {
                    if g["predicate"]["p_type"] != json!(t) || g["predicate"]["value"] != json!(v) {
                        provs[*i].altered = true;
                    }
                    g["predicate"]["p_type"] = json!(t);
                    g["predicate"]["value"] = json!(v);
                }
            }
        }
        Mut::AlterSub(i) => {
            if let Some(e) = doc["proof"]["proofs"].get_mut(*i) {
                let s = e["primary_proof"]["eq_proof"]["e"].as_str().unwrap_or("1").to_string();
                e["primary_proof"]["eq_proof"]["e"] = json!(bump_decimal(&s));
                provs[*i].altered = true;
            }
        }
        Mut::AlterAgg => {
            let s = doc["proof"]["aggregated_proof"]["c_hash"].as_str().unwrap_or("1").to_string();
            doc["proof"]["aggregated_proof"]["c_hash"] = json!(bump_decimal(&s));
            agg.altered = true;
        }
        _ => {}
    }
}

fn apply_w3c(p: &mut W3CPresentation, provs: &mut Vec<Prov>, m: &Mut) {
    match m {
        Mut::WSubjectSet(i, k, v) => {
            if let Some(vc) = p.verifiable_credential.get_mut(*i) {
                match v {
                    Value::Null => {
                        vc.credential_subject.0.remove(k);
                    }
                    Value::String(s) => {
                        vc.credential_subject.0.insert(k.clone(), CredentialAttributeValue::String(s.clone()));
                    }
                    Value::Number(n) => {
                        // built through serde so that the harness does not depend on the integer type behind Number
                        if let Ok(num) = serde_json::from_value::<CredentialAttributeValue>(json!(n.as_i64().unwrap_or(0))) {
                            vc.credential_subject.0.insert(k.clone(), num);
                        }
                    }
                    Value::Bool(b) => {
                        vc.credential_subject.0.insert(k.clone(), CredentialAttributeValue::Bool(*b));
                    }
                    _ => {}
                }
            }
        }
        Mut::WCredAppend(vcj, prov) => {
            if let Ok(vc) = serde_json::from_value(vcj.clone()) {
                p.verifiable_credential.push(vc);
                provs.push(prov.clone());
            }
        }
        Mut::WFrontCopyUnusable(i) => {
            if let Some(vc) = p.verifiable_credential.get(*i) {
                let mut vj = serde_json::to_value(vc).unwrap();
                if vj["proof"].is_object() {
                    vj["proof"]["proofPurpose"] = json!("authentication");
                    if let Ok(front) = serde_json::from_value(vj) {
                        p.verifiable_credential.insert(0, front);
                        let mut pr = provs.get(*i).cloned().unwrap_or(Prov { cred: 0, used_link: 0, pos: 0, nrp: None, altered: true });
                        pr.altered = true;
                        provs.insert(0, pr);
                    }
                }
            }
        }
        Mut::WProofList(i, method) => {
            if let Some(vc) = p.verifiable_credential.get_mut(*i) {
                let mut vj = serde_json::to_value(&*vc).unwrap();
                if vj["proof"].is_object() {
                    let mut first = vj["proof"].clone();
                    first["proofPurpose"] = json!("authentication");
                    let mut second = vj["proof"].clone();
                    if let Some(m) = method {
                        second["verificationMethod"] = json!(m);
                    }
                    vj["proof"] = json!([first, second]);
                    if let Ok(nv) = serde_json::from_value(vj) {
                        *vc = nv;
                    }
                }
            }
        }
        Mut::WIssuer(i, s) => {
            if let Some(vc) = p.verifiable_credential.get_mut(*i) {
                vc.issuer = anoncreds::data_types::issuer_id::IssuerId::new_unchecked(s.clone());
            }
        }
        Mut::WIdent(i, _, _) | Mut::WMethod(i, _) => {
            if let Some(vc) = p.verifiable_credential.get_mut(*i) {
                if let Ok(pv) = vc.get_credential_presentation_proof().cloned() {
                    let mut pv = pv;
                    let mut method = pv.cred_def_id.to_string();
                    match m {
                        Mut::WIdent(_, f, v) => {
                            match *f {
                                "schema_id" => pv.schema_id = anoncreds::data_types::schema::SchemaId::new_unchecked(v.as_str().unwrap_or("")),
                                "cred_def_id" => pv.cred_def_id = anoncreds::data_types::cred_def::CredentialDefinitionId::new_unchecked(v.as_str().unwrap_or("")),
                                "rev_reg_id" => pv.rev_reg_id = v.as_str().map(anoncreds::data_types::rev_reg_def::RevocationRegistryDefinitionId::new_unchecked),
                                "timestamp" => pv.timestamp = v.as_u64(),
                                _ => {}
                            }
                            method = pv.cred_def_id.to_string();
                        }
                        Mut::WMethod(_, s) => method = s.clone(),
                        _ => {}
                    }
                    let proof = DataIntegrityProof::new(ProofPurpose::AssertionMethod, method, &pv, None).unwrap();
                    vc.proof = OneOrMany::One(CredentialProof::AnonCredsDataIntegrityProof(proof));
                }
            }
        }
        Mut::WCredSwap(i, j) => {
            if *i < p.verifiable_credential.len() && *j < p.verifiable_credential.len() {
                p.verifiable_credential.swap(*i, *j);
                provs.swap(*i, *j);
            }
        }
        Mut::WCredDrop(i) => {
            if *i < p.verifiable_credential.len() {
                p.verifiable_credential.remove(*i);
                provs.remove(*i);
            }
        }
        _ => {}
    }
}

#[derive(Clone, Copy, Debug, PartialEq)]
pub enum Fmt {
    Legacy,
    W3C,
}
#[derive(Clone, Copy, Debug, PartialEq)]
pub enum Base {
    None,
    StripIntervals,
    StripRestrictions,
}

#[derive(Clone, Debug)]
pub struct VJob {
    pub class: String,
    pub fmt: Fmt,
    pub build: ReqSpec,  // the request the presentation is honestly built for
    pub verify: ReqSpec, // the request it is verified against
    pub picks: Vec<Pick>,
    pub self_att: Vec<(String, String)>,
    pub holder: usize,
    pub muts: Vec<Mut>,
    pub ctx: VCtx,
    pub base: Base,
    pub craft: Option<(Vec<vw::CraftSub>, bool, Value)>, // legacy only: sub-proofs, prover-side common attribute, requested_proof
}

/// run one job against the real library; returns the case body (without property id and case id)
pub fn run_job(w: &World, j: &VJob) -> Option<(String, Value)> {
    let breq = j.build.build()?;
    let vreq = j.verify.build()?;
    let bctx = vw::build_ctx(w, &j.ctx);
    let base_req = match j.base {
        Base::None => None,
        Base::StripIntervals => j.verify.strip_intervals().build(),
        Base::StripRestrictions => j.verify.strip_restrictions().build(),
    };
    match j.fmt {
        Fmt::Legacy => {
            let (mut doc, mut provs, mut agg) = match &j.craft {
                Some((subs, common, rp)) => vw::craft_legacy(w, &breq, subs, *common, rp.clone())?,
                None => {
                    let (p, provs, agg) = vw::make_legacy(w, &breq, &j.picks, &j.self_att, j.holder)?;
                    (serde_json::to_value(&p).unwrap(), provs, agg)
                }
            };
            let (orig_proofs, orig_agg) = (doc["proof"]["proofs"].clone(), doc["proof"]["aggregated_proof"].clone());
            let was_altered: Vec<bool> = provs.iter().map(|p| p.altered).collect();
            let agg_was_altered = agg.altered;
            for m in &j.muts {
                apply_legacy(&mut doc, &mut provs, &mut agg, m);
            }
            // "altered" is a fact about the final document, not about the mutations that ran: a later rewrite may
            // restore what an earlier one changed (the sub-proof is compared with the one finalised at its position)
            if j.craft.is_none() {
                for (k, pr) in provs.iter_mut().enumerate() {
                    if let (Some(f), Some(o)) = (doc["proof"]["proofs"].get(k), orig_proofs.get(pr.pos)) {
                        pr.altered = was_altered.get(pr.pos).copied().unwrap_or(false) || f != o;
                    }
                }
                agg.altered = agg_was_altered || doc["proof"]["aggregated_proof"] != orig_agg;
            }
            let p2: Presentation = serde_json::from_value(doc.clone()).ok()?;
            // abstract what the library actually parsed
            let doc2 = serde_json::to_value(&p2).unwrap();
            // where the verifier follows a caller-supplied map the call gets a time limit (a verification that does not
            // return is reported like a crash)
            let out = if j.ctx.ovr.is_some() { match vw::verify_with_limit(false, doc.clone(), &vreq, &bctx, 40) { "hang" => "panic", o => o } } else { vw::verify_legacy(&p2, &vreq, &bctx) };
            let base = base_req.map(|r| vw::verify_legacy(&p2, &r, &bctx) == "accept");
            if std::env::var("AVH_DEBUG_CLASS").map(|c| j.class.contains(&c)).unwrap_or(false) {
                eprintln!("VDEBUG class={} muts={:?} impl={} base={:?} request={}", j.class, j.muts, out, base, serde_json::to_string(&vreq).unwrap_or_default());
            }
            let n = doc2["proof"]["proofs"].as_array().map(|a| a.len()).unwrap_or(0);
            if provs.len() != n {
                return None;
            }
            let body = format!(
                "V L {} {} {} {} {}",
                vw::request_sexp_doc(&j.verify.doc(), &vreq),
                vw::legacy_sexp(w, &doc2, &provs, &agg),
                j.ctx.sexp(w),
                out,
                crate::sx::opt(base, |b| crate::sx::boolean(b))
            );
            Some((body, json!({"format": "legacy", "class": j.class, "mutations": format!("{:?}", j.muts), "impl": out, "request": serde_json::to_value(&vreq).unwrap()})))
        }
        Fmt::W3C => {
            let (mut p, mut provs, agg) = match &j.craft {
                Some((subs, common, _)) => vw::craft_w3c(w, &breq, &j.picks, subs, *common)?,
                None => vw::make_w3c(w, &breq, &j.picks, j.holder)?,
            };
            for m in &j.muts {
                apply_w3c(&mut p, &mut provs, m);
            }
            // attribute names that collide under normalisation: which of them the library looks at first
            // depends on HashMap order. Since the subject check covers every entry the verdict no longer
            // depends on that order; to see an order-dependent verdict if one comes back, such a
            // presentation is parsed afresh (new hash order) and verified several times, and the most
            // permissive verdict counts
            // (a collision between a predicate marker - a boolean entry - and a value entry stays excluded:
            // there the library's answer does depend on which of the two it meets first, in a corner the
            // property says nothing about; precondition `names_distinct_cv` of DESIGN.md 3.2, now narrowed)
            let mut collide = false;
            for vc in &p.verifiable_credential {
                let mut seen: std::collections::HashMap<String, bool> = std::collections::HashMap::new();
                for (k, v) in vc.credential_subject.0.iter() {
                    let is_bool = matches!(v, CredentialAttributeValue::Bool(_));
                    if let Some(prev_bool) = seen.insert(vw::cvn(k), is_bool) {
                        collide = true;
                        if prev_bool || is_bool {
                            return None;
                        }
                    }
                }
            }
            // a serde hop, so that the verifier sees what a remote verifier would see
            let pj = serde_json::to_value(&p).unwrap();
            let p2: W3CPresentation = serde_json::from_value(pj.clone()).ok()?;
            let mut out = if j.ctx.ovr.is_some() { match vw::verify_with_limit(true, pj.clone(), &vreq, &bctx, 40) { "hang" => "panic", o => o } } else { vw::verify_w3c(&p2, &vreq, &bctx) };
            if collide {
                for _ in 0..5 {
                    let p3: W3CPresentation = serde_json::from_value(pj.clone()).ok()?;
                    let o3 = vw::verify_w3c(&p3, &vreq, &bctx);
                    if o3 == "accept" || (o3 == "panic" && out != "accept") {
                        out = o3;
                    }
                }
            }
            let base = base_req.map(|r| vw::verify_w3c(&p2, &r, &bctx) == "accept");
            let body = format!(
                "V W {} {} {} {} {}",
                vw::request_sexp_doc(&j.verify.doc(), &vreq),
                vw::w3c_sexp(w, &p2, &provs, &agg),
                j.ctx.sexp(w),
                out,
                crate::sx::opt(base, |b| crate::sx::boolean(b))
            );
            Some((body, json!({"format": "w3c", "class": j.class, "mutations": format!("{:?}", j.muts), "impl": out, "request": serde_json::to_value(&vreq).unwrap()})))
        }
    }
}

// ------------------------------------------------------------------ building blocks
pub const NONCE: &str = "123432421212";

fn pick(cred: usize, attrs: &[(&str, bool)], preds: &[&str], list: Option<usize>) -> Pick {
    Pick { cred, attrs: attrs.iter().map(|(r, b)| (r.to_string(), *b)).collect(), preds: preds.iter().map(|s| s.to_string()).collect(), list, inc: false }
}

fn job(class: &str, fmt: Fmt, build: &ReqSpec, verify: &ReqSpec, picks: Vec<Pick>, w: &World) -> VJob {
    VJob { class: class.into(), fmt, build: build.clone(), verify: verify.clone(), picks, self_att: vec![], holder: 0, muts: vec![], ctx: VCtx::full(w), base: Base::None, craft: None }
}

/// the honest shapes every family starts from: (name, request, picks, self-attested)
pub fn shapes_for_parsers() -> Vec<(ReqSpec, Vec<Pick>, Vec<(String, String)>)> {
    shapes().into_iter().map(|(_, a, b, c)| (a, b, c)).collect()
}

fn shapes() -> Vec<(&'static str, ReqSpec, Vec<Pick>, Vec<(String, String)>)> {
    vec![
        (
            "one-cred",
            ReqSpec::new(NONCE).attr("a_name", "name").attr("a_sex", "sex").pred("p_age", "age", ">=", 18),
            vec![pick(0, &[("a_name", true), ("a_sex", false)], &["p_age"], None)],
            vec![],
        ),
        (
            "two-creds-case-variants",
            ReqSpec::new(NONCE).attr("a_name", "Name").attr("a_zip", "zipcode").pred("p_sal", "salary", ">", 1000).pred("p_age", "AGE", "<", 65),
            vec![pick(0, &[("a_name", true)], &["p_age"], None), pick(2, &[("a_zip", true)], &["p_sal"], None)],
            vec![],
        ),
        (
            "two-creds-same-creddef",
            ReqSpec::new(NONCE).attr("a_name", "name").attr("a_name2", "name").pred("p_age", "age", ">=", 18),
            vec![pick(0, &[("a_name", true)], &["p_age"], None), pick(6, &[("a_name2", true)], &[], None)],
            vec![],
        ),
        (
            "two-creddefs-same-schema",
            ReqSpec::new(NONCE).attr("a_name", "name").attr("a_h", "height").pred("p_age", "age", ">=", 18),
            vec![pick(0, &[("a_name", true)], &[], None), pick(1, &[("a_h", true)], &["p_age"], None)],
            vec![],
        ),
        (
            "single-and-group-same-attribute",
            ReqSpec::new(NONCE).attr("a_name", "name").group("g", &["name", "height"]),
            vec![pick(0, &[("a_name", true), ("g", true)], &[], None)],
            vec![],
        ),
        (
            "same-key-attr-and-pred",
            ReqSpec::new(NONCE).attr("1", "name").pred("1", "salary", ">", 1000),
            vec![pick(0, &[("1", true)], &[], None), pick(2, &[], &["1"], None)],
            vec![],
        ),
        (
            "group",
            ReqSpec::new(NONCE).group("g", &["name", "height"]).attr("a_sex", "sex").pred("p_a", "age", "<=", 28),
            vec![pick(0, &[("g", true), ("a_sex", false)], &["p_a"], None)],
            vec![],
        ),
        (
            "self-attested",
            ReqSpec::new(NONCE).attr("a_name", "name").attr("sa_phone", "phone"),
            vec![pick(0, &[("a_name", true)], &[], None)],
            vec![("sa_phone".to_string(), "555".to_string())],
        ),
        (
            "revocable-global",
            ReqSpec::new(NONCE).attr("a_name", "name").pred("p_age", "age", ">=", 18).global((Some(80), Some(250))),
            vec![pick(1, &[("a_name", true)], &["p_age"], Some(1))],
            vec![],
        ),
        (
            "revocable-plus-plain",
            ReqSpec::new(NONCE).attr("a_name", "name").attr("a_zip", "Zip Code").local("a_name", (None, Some(150))),
            vec![pick(1, &[("a_name", true)], &[], Some(0)), pick(2, &[("a_zip", false)], &[], None)],
            vec![],
        ),
        // the second credential reveals nothing: it serves an unrevealed referent and a predicate only
        (
            "second-cred-reveals-nothing",
            ReqSpec::new(NONCE).attr("a_name", "name").attr("a_zip", "Zip Code").pred("p_sal", "salary", ">", 1000),
            vec![pick(0, &[("a_name", true)], &[], None), pick(2, &[("a_zip", false)], &["p_sal"], None)],
            vec![],
        ),
        // unrevealed referents named with another spacing / case than the schema has
        (
            "unrevealed-other-spacing",
            ReqSpec::new(NONCE).attr("a_name", "NAME").attr("a_zip", "zipcode").group("g", &["ZIP CODE", "sal ary"]),
            vec![pick(2, &[("a_name", true), ("a_zip", false), ("g", false)], &[], None)],
            vec![],
        ),
        // a credential that serves a predicate only, alone
        (
            "predicate-only",
            ReqSpec::new(NONCE).pred("p_age", "age", ">=", 18),
            vec![pick(0, &[], &["p_age"], None)],
            vec![],
        ),
    ]
}

fn with_shape(class: &str, fmt: Fmt, w: &World, s: &(&'static str, ReqSpec, Vec<Pick>, Vec<(String, String)>)) -> VJob {
    let mut j = job(&format!("{}:{}", class, s.0), fmt, &s.1, &s.1, s.2.clone(), w);
    j.self_att = s.3.clone();
    j
}

fn edit_spec(spec: &ReqSpec, f: impl Fn(&mut ReqSpec)) -> ReqSpec {
    let mut s = spec.clone();
    f(&mut s);
    s
}

/// requests that differ from `spec` in one place
fn siblings(spec: &ReqSpec) -> Vec<(String, ReqSpec)> {
    let mut res = vec![];
    for (i, (r, p)) in spec.preds.iter().enumerate() {
        let v = p["p_value"].as_i64().unwrap();
        for nv in [v + 1, v - 1, v + 50, 99, -1, 2147483647, -2147483648] {
            res.push((format!("pred-threshold:{}->{}", r, nv), edit_spec(spec, |s| s.preds[i].1["p_value"] = json!(nv))));
        }
        for op in [">=", ">", "<=", "<"] {
            if p["p_type"] != op {
                res.push((format!("pred-op:{}->{}", r, op), edit_spec(spec, |s| s.preds[i].1["p_type"] = json!(op))));
            }
        }
        for n in ["height", "salary", "Age", "a g e", "name"] {
            if p["name"] != n {
                res.push((format!("pred-attr:{}->{}", r, n), edit_spec(spec, |s| s.preds[i].1["name"] = json!(n))));
            }
        }
    }
    for (i, (r, a)) in spec.attrs.iter().enumerate() {
        if a.get("name").is_some() {
            for n in ["sex", "salary", "NAME", "n a m e", "phone"] {
                if a["name"] != n {
                    res.push((format!("attr-name:{}->{}", r, n), edit_spec(spec, |s| s.attrs[i].1["name"] = json!(n))));
                }
            }
            res.push((format!("attr-to-group:{}", r), edit_spec(spec, |s| {
                let n = s.attrs[i].1["name"].clone();
                s.attrs[i].1 = json!({"names": [n]});
            })));
        } else {
            res.push((format!("group-names:{}", r), edit_spec(spec, |s| s.attrs[i].1["names"] = json!(["name", "age"]))));
            res.push((format!("group-extra:{}", r), edit_spec(spec, |s| s.attrs[i].1["names"].as_array_mut().unwrap().push(json!("sex")))));
        }
    }
    res.push(("extra-pred".into(), edit_spec(spec, |s| s.preds.push(("p_extra".into(), json!({"name": "age", "p_type": ">=", "p_value": 1}))))));
    res.push(("extra-attr".into(), edit_spec(spec, |s| s.attrs.push(("a_extra".into(), json!({"name": "height"}))))));
    if !spec.preds.is_empty() {
        res.push(("missing-pred".into(), edit_spec(spec, |s| {
            s.preds.remove(0);
        })));
    }
    res.push(("other-nonce".into(), edit_spec(spec, |s| s.nonce = "987654321".into())));
    res
}

fn legacy_structural(r: &mut Rng, j: &VJob) -> Vec<Mut> {
    // one random structural rewrite of a prover-controlled field
    let nproofs = j.picks.iter().filter(|p| !(p.attrs.is_empty() && p.preds.is_empty())).count();
    let revealed: Vec<String> = j.picks.iter().flat_map(|p| p.attrs.iter().filter(|a| a.1).map(|a| a.0.clone())).collect();
    let unrev: Vec<String> = j.picks.iter().flat_map(|p| p.attrs.iter().filter(|a| !a.1).map(|a| a.0.clone())).collect();
    let preds: Vec<String> = j.picks.iter().flat_map(|p| p.preds.clone()).collect();
    let any_ref = |r: &mut Rng, v: &Vec<String>| -> String { if v.is_empty() { "a_name".into() } else { r.pick(v).clone() } };
    let i = r.below(nproofs.max(1) as u64) as usize;
    match r.below(16) {
        0 => vec![Mut::IdentSet(i, "schema_id", json!(*r.pick(&vw::SCHEMA_IDS)))],
        1 => vec![Mut::IdentSet(i, "cred_def_id", json!(*r.pick(&vw::CD_IDS)))],
        2 => vec![Mut::IdentSet(i, "rev_reg_id", if r.chance(1, 2) { Value::Null } else { json!(vw::REG_ID) })],
        3 => vec![Mut::IdentSet(i, "timestamp", if r.chance(1, 3) { Value::Null } else { json!(*r.pick(&[100u64, 200, 300, 150, 250, 99, 301])) })],
        4 => vec![Mut::IdentDup(i)],
        5 => vec![Mut::IdentDrop(i)],
        6 => vec![Mut::ProofDup(i)],
        7 => vec![Mut::ProofDrop(i)],
        8 => vec![Mut::Reindex(*r.pick(&["revealed_attrs", "unrevealed_attrs", "predicates", "revealed_attr_groups"]), any_ref(r, &[revealed.clone(), unrev.clone(), preds.clone()].concat()), r.below(3))],
        9 => vec![Mut::MoveRef("revealed_attrs", *r.pick(&["unrevealed_attrs", "self_attested_attrs", "predicates"]), any_ref(r, &revealed))],
        10 => vec![Mut::MoveRef("unrevealed_attrs", *r.pick(&["revealed_attrs", "self_attested_attrs"]), any_ref(r, &unrev))],
        11 => vec![Mut::AddSelf(any_ref(r, &[revealed.clone(), unrev.clone()].concat()), "self".into())],
        12 => vec![Mut::EditRevealed(any_ref(r, &revealed), Some("Mallory".into()), if r.chance(1, 2) { Some("1234".into()) } else { None })],
        13 if r.chance(1, 3) => vec![Mut::DupGroupKey("g".into(), r.pick(&["name", "height", "age"]).to_string(), r.pick(&["Name", "n a m e", "HEIGHT", "salary"]).to_string())],
        13 if r.chance(1, 2) => vec![if r.chance(1, 2) { Mut::RenameGroupKey("g".into(), r.pick(&["name", "height", "age"]).to_string(), r.pick(&["Name", "n a m e", "HEIGHT", "salary"]).to_string()) } else { Mut::AddGroupValue("g".into(), r.pick(&["Name", "salary", "name "]).to_string(), "x".into(), "1".into()) }],
        13 => vec![Mut::RemoveRef(*r.pick(&["revealed_attrs", "unrevealed_attrs", "predicates"]), any_ref(r, &[revealed.clone(), unrev.clone(), preds.clone()].concat()))],
        14 => if r.chance(1, 2) { vec![Mut::AlterSub(i)] } else { vec![Mut::EditProofPred(i, *r.pick(&["GT", "LT", "GE", "LE"]), *r.pick(&[2147483647i64, -2147483648, 18, 0])) ] },
        _ => vec![Mut::AlterAgg],
    }
}

fn w3c_structural(r: &mut Rng, j: &VJob) -> Vec<Mut> {
    let n = j.picks.len().max(1);
    let i = r.below(n as u64) as usize;
    match r.below(10) {
        0 => vec![Mut::WSubjectSet(i, r.pick(&["name", "Name", "sex", "age", "height", "salary"]).to_string(), json!("Mallory"))],
        1 => vec![Mut::WSubjectSet(i, r.pick(&["height", "extra", "age"]).to_string(), json!(999))],
        2 => vec![Mut::WSubjectSet(i, r.pick(&["name", "Name", "age", "AGE", "salary"]).to_string(), Value::Null)],
        3 => vec![Mut::WSubjectSet(i, r.pick(&["age", "height", "name"]).to_string(), json!(true))],
        4 => vec![Mut::WIssuer(i, r.pick(&["did:web:issuer2.example", "NcYxiDXkpYi6ov5FcYDi1e", "did:web:mallory"]).to_string())],
        5 => vec![Mut::WIdent(i, "schema_id", json!(*r.pick(&vw::SCHEMA_IDS)))],
        6 => vec![Mut::WIdent(i, "cred_def_id", json!(*r.pick(&vw::CD_IDS)))],
        7 => vec![Mut::WIdent(i, "rev_reg_id", if r.chance(1, 2) { Value::Null } else { json!(vw::REG_ID) })],
        8 => vec![Mut::WIdent(i, "timestamp", if r.chance(1, 3) { Value::Null } else { json!(*r.pick(&[100u64, 200, 300, 150, 250])) })],
        _ => vec![Mut::WMethod(i, r.pick(&vw::CD_IDS).to_string())],
    }
}

// ------------------------------------------------------------------ per-property case families
fn common_families(r: &mut Rng, w: &World, thorough: bool) -> Vec<VJob> {
    let mut jobs = vec![];
    for fmt in [Fmt::Legacy, Fmt::W3C] {
        for s in shapes() {
            if fmt == Fmt::W3C && !s.3.is_empty() {
                continue; // W3C presentations carry no self-attested attributes
            }
            let honest = with_shape("honest", fmt, w, &s);
            jobs.push(honest.clone());
            // what the verifier holds: registry definitions without any status list of theirs (an empty list of lists),
            // no lists argument at all, no registry definitions, definitions under another id
            if s.2.iter().any(|p| p.list.is_some()) {
                for (cname, lists, regs) in [("ctx:status-lists-empty", Some(vec![]), Some(vec![vw::REG_ID.to_string()])), ("ctx:status-lists-absent", None, Some(vec![vw::REG_ID.to_string()])),
                                             ("ctx:registry-definitions-absent", Some(vec![0usize, 1, 2]), None), ("ctx:registry-definition-under-other-id", Some(vec![0, 1, 2]), Some(vec!["other:reg".to_string()])),
                                             ("ctx:registry-definitions-empty", Some(vec![0, 1, 2]), Some(vec![]))] {
                    let mut j = honest.clone();
                    j.class = cname.into();
                    j.ctx.lists = lists;
                    j.ctx.reg_defs = regs;
                    jobs.push(j);
                }
            }
            for (name, sib) in siblings(&s.1) {
                let mut j = honest.clone();
                j.class = format!("cross-request:{}", name.split(':').next().unwrap());
                j.verify = sib;
                jobs.push(j);
            }
            let nmut = if thorough { 120 } else { 24 };
            for _ in 0..nmut {
                let mut j = honest.clone();
                let k = 1 + r.below(2);
                for _ in 0..k {
                    let m = if fmt == Fmt::Legacy { legacy_structural(r, &j) } else { w3c_structural(r, &j) };
                    j.muts.extend(m);
                }
                j.class = format!("mutated:{}", match j.muts.first() { Some(m) => format!("{:?}", m).split('(').next().unwrap().to_string(), None => "none".into() });
                jobs.push(j);
            }
        }
    }
    jobs.extend(later_families(w));
    jobs
}

/// families added after the eighth round of seeded changes (both formats)
fn later_families(w: &World) -> Vec<VJob> {
    let mut jobs = vec![];
    for fmt in [Fmt::Legacy, Fmt::W3C] {
        // W3C: an entry whose proof cannot be used in front of the genuine one (honest, and with the genuine entry edited);
        // the proof of an entry turned into a list whose first member is not a credential presentation proof
        if fmt == Fmt::W3C {
            let spec = ReqSpec::new(NONCE).attr("a_name", "name").attr("a_sex", "sex").pred("p_age", "age", ">=", 18);
            let picks = vec![pick(0, &[("a_name", true), ("a_sex", true)], &["p_age"], None)];
            let edits: Vec<Vec<Mut>> = vec![
                vec![],
                vec![Mut::WSubjectSet(1, "name".into(), json!("Mallory"))],
                vec![Mut::WSubjectSet(1, "height".into(), json!(210))],
                vec![Mut::WIssuer(1, "did:web:mallory.example".into())],
            ];
            for e in edits {
                let mut j = job("w3c-unusable-entry-in-front", fmt, &spec, &spec, picks.clone(), w);
                j.muts = vec![Mut::WFrontCopyUnusable(0)];
                j.muts.extend(e);
                jobs.push(j);
            }
            for m in [Some("creddef:mallory".to_string()), Some(w.cds[3].cred_def_id.clone())] {
                let mut j = job("w3c-proof-list-behind-unusable-proof", fmt, &spec, &spec, picks.clone(), w);
                j.muts = vec![Mut::WProofList(0, m)];
                jobs.push(j);
            }
        }
        // one attribute under two predicates of the same kind with different thresholds, from one credential: honest,
        // and a presentation that proves the weaker threshold twice shown for the request that also asks the stronger
        for (op, weak, strong) in [(">=", 18, 21), ("<=", 65, 40), (">", 17, 27), ("<", 66, 29)] {
            let picks = vec![pick(0, &[("a_name", true)], &["p_1", "p_2"], None)];
            let both = ReqSpec::new(NONCE).attr("a_name", "name").pred("p_1", "age", op, weak).pred("p_2", "age", op, strong);
            jobs.push(job("two-thresholds-one-attribute", fmt, &both, &both, picks.clone(), w));
            for flip in [false, true] {
                let (t1, t2) = if flip { (strong, weak) } else { (weak, strong) };
                let build = ReqSpec::new(NONCE).attr("a_name", "name").pred("p_1", "age", op, weak).pred("p_2", "age", op, weak);
                let verify = ReqSpec::new(NONCE).attr("a_name", "name").pred("p_1", "age", op, t1).pred("p_2", "age", op, t2);
                jobs.push(job("weaker-threshold-proved-twice", fmt, &build, &verify, picks.clone(), w));
            }
        }
    }
    jobs
}

fn c01_jobs(r: &mut Rng, w: &World, thorough: bool) -> Vec<VJob> {
    let mut jobs = common_families(r, w, thorough);
    // every referent moved to every other section of requested_proof (a predicate filed as self-attested / unrevealed /
    // revealed, an attribute filed as a predicate, ...), shape by shape
    for s in shapes() {
        let spec = &s.1;
        let d = spec.doc();
        let arefs: Vec<String> = d["requested_attributes"].as_object().map(|o| o.keys().cloned().collect()).unwrap_or_default();
        let prefs: Vec<String> = d["requested_predicates"].as_object().map(|o| o.keys().cloned().collect()).unwrap_or_default();
        let sections = ["revealed_attrs", "unrevealed_attrs", "self_attested_attrs", "predicates"];
        for (refs, froms) in [(&prefs, vec!["predicates"]), (&arefs, vec!["revealed_attrs", "unrevealed_attrs", "self_attested_attrs"])] {
            for r0 in refs.iter() {
                for from in froms.iter() {
                    for to in sections.iter().filter(|t| *t != from) {
                        let mut j = with_shape("referent-filed-in-another-section", Fmt::Legacy, w, &s);
                        j.muts = vec![Mut::MoveRef(from, to, r0.clone())];
                        jobs.push(j);
                    }
                }
            }
        }
    }
    // W3C: the request names an attribute the presented credential does not have; the presentation was built for the
    // request without that referent, and a predicate marker / a value for it is added to the subject afterwards
    for (extra, name) in [("a_sal", "salary"), ("a_x", "Salary"), ("a_zip", "zipcode"), ("a_extra", "extra")] {
        for v in [json!(true), json!("Mallory"), json!(7)] {
            let build = ReqSpec::new(NONCE).attr("a_name", "name").pred("p_age", "age", ">=", 18);
            let verify = build.clone().attr(extra, name);
            let mut j = job("cross-request:w3c-attribute-not-in-credential", Fmt::W3C, &build, &verify, vec![pick(0, &[("a_name", true)], &["p_age"], None)], w);
            j.muts = vec![Mut::WSubjectSet(0, name.into(), v.clone())];
            jobs.push(j);
        }
    }
    // thresholds the request document states outside the i32 range: the library refuses such a request when it reads
    // it (then there is no case); if it ever reads one, the presentation is judged against what the document says
    for fmt in [Fmt::Legacy, Fmt::W3C] {
        for (op, proven, stated) in [(">=", 18i64, 4294967314i64), (">=", 18, 2147483648), ("<=", 65, -4294967231), (">", 17, 4294967313), ("<", 66, -2147483649 + 66)] {
            let build = ReqSpec::new(NONCE).attr("a_name", "name").pred("p", "age", op, proven);
            let verify = ReqSpec::new(NONCE).attr("a_name", "name").pred("p", "age", op, stated);
            jobs.push(job("cross-request:threshold-outside-i32", fmt, &build, &verify, vec![pick(0, &[("a_name", true)], &["p"], None)], w));
        }
    }
    for pad in ["Name", "n a m e", "height", "HEIGHT"] {
        let build = ReqSpec::new(NONCE).group("g", &["name"]);
        let verify = ReqSpec::new(NONCE).group("g", &["name", "height"]);
        let mut j = job("cross-request:group-padded-with-copy", Fmt::Legacy, &build, &verify, vec![pick(0, &[("g", true)], &[], None)], w);
        j.muts = vec![Mut::DupGroupKey("g".into(), "name".into(), pad.into())];
        jobs.push(j);
    }
    for (pad, praw) in [("Name", "Alex"), ("n a m e", "Alex"), ("height", "175"), ("HEIGHT", "175")] {
        let build = ReqSpec::new(NONCE).group("g", &["name"]);
        let verify = ReqSpec::new(NONCE).group("g", &["name", "height"]);
        let mut j = job("cross-request:group-padded", Fmt::Legacy, &build, &verify, vec![pick(0, &[("g", true)], &[], None)], w);
        j.muts = vec![Mut::AddGroupValue("g".into(), pad.into(), praw.into(), "175".into())];
        jobs.push(j);
    }
    // unrevealed referent served by a credential whose schema lacks the attribute
    for fmt in [Fmt::Legacy, Fmt::W3C] {
        let build = ReqSpec::new(NONCE).attr("a_name", "name").attr("a_x", "sex");
        let verify = ReqSpec::new(NONCE).attr("a_name", "name").attr("a_x", "salary");
        jobs.push(job("cross-request:unrevealed-not-in-schema", fmt, &build, &verify, vec![pick(0, &[("a_name", true), ("a_x", false)], &[], None)], w));
    }
    jobs
}

fn c03_jobs(r: &mut Rng, w: &World, thorough: bool) -> Vec<VJob> {
    let mut jobs = common_families(r, w, thorough);
    let s = &shapes()[1];
    // legacy: edit every revealed value / swap the credential a value is attributed to / edit inside the CL proof
    for (rf, _) in [("a_name", 0), ("a_zip", 1)] {
        for (raw, enc) in [(Some("Mallory"), None), (None, Some("999")), (Some("Mallory"), Some("999")), (None, Some("0028")), (None, Some("+7"))] {
            let mut j = with_shape("edit-revealed", Fmt::Legacy, w, s);
            j.muts = vec![Mut::EditRevealed(rf.into(), raw.map(|x| x.to_string()), enc.map(|x| x.to_string()))];
            jobs.push(j);
        }
        for idx in [0u64, 1, 2] {
            let mut j = with_shape("reattribute-revealed", Fmt::Legacy, w, s);
            j.muts = vec![Mut::Reindex("revealed_attrs", rf.into(), idx)];
            jobs.push(j);
        }
    }
    for (i, n) in [(0usize, "name"), (1, "zipcode")] {
        let mut j = with_shape("edit-inside-cl-proof", Fmt::Legacy, w, s);
        j.muts = vec![Mut::EditProofRevealed(i, n.into(), "424242".into()), Mut::EditRevealed(if i == 0 { "a_name".into() } else { "a_zip".into() }, None, Some("424242".into()))];
        jobs.push(j);
    }
    let g = &shapes()[2];
    for (n, raw, enc) in [("name", Some("Mallory"), None), ("height", None, Some("180")), ("name", None, Some("5"))] {
        let mut j = with_shape("edit-group-value", Fmt::Legacy, w, g);
        j.muts = vec![Mut::EditGroupValue("g".into(), n.into(), raw.map(|x: &str| x.to_string()), enc.map(|x: &str| x.to_string()))];
        jobs.push(j);
    }
    // the same attribute requested as a single referent AND inside a group; the group copy is edited
    let sg = shapes().into_iter().find(|s| s.0 == "single-and-group-same-attribute").unwrap();
    for (n, raw, enc) in [("name", Some("Mallory"), Some("12345")), ("name", None, Some("1")), ("height", None, Some("999")), ("height", Some("180"), None)] {
        let mut j = with_shape("edit-group-value-shared-attribute", Fmt::Legacy, w, &sg);
        j.muts = vec![Mut::EditGroupValue("g".into(), n.into(), raw.map(|x: &str| x.to_string()), enc.map(|x: &str| x.to_string()))];
        jobs.push(j);
    }
    for (old, new) in [("name", "Name"), ("name", "n a m e"), ("height", "HEIGHT"), ("height", "salary")] {
        let mut j = with_shape("rename-group-key", Fmt::Legacy, w, g);
        j.muts = vec![Mut::RenameGroupKey("g".into(), old.into(), new.into())];
        jobs.push(j);
    }
    // a group request that names an attribute twice: the honest presentation has one entry fewer than names;
    // an added entry under a name that was never requested makes the counts agree
    for names in [vec!["name", "name"], vec!["name", "height", "name"], vec!["name", "Name"]] {
        let spec = ReqSpec::new(NONCE).group("g", &names);
        let honest = job("group-duplicate-names", Fmt::Legacy, &spec, &spec, vec![pick(0, &[("g", true)], &[], None)], w);
        jobs.push(honest.clone());
        let mut j = honest.clone();
        j.muts = vec![Mut::AddGroupValue("g".into(), "salary".into(), "1000000".into(), "1000000".into())];
        jobs.push(j);
    }
    // W3C: edit / add / remove / retype every subject entry, issuer and verification method
    for s in shapes().iter().filter(|s| s.3.is_empty()) {
        let honest = with_shape("w3c-subject", Fmt::W3C, w, s);
        for i in 0..s.2.len() {
            for k in ["name", "Name", "sex", "age", "height", "Zip Code", "zipcode", "salary", "extra"] {
                for v in [json!("Mallory"), json!(999), json!(true), Value::Null] {
                    if !thorough && r.chance(1, 2) {
                        continue;
                    }
                    let mut j = honest.clone();
                    j.muts = vec![Mut::WSubjectSet(i, k.into(), v)];
                    jobs.push(j);
                }
            }
            for iss in ["did:web:issuer2.example", "NcYxiDXkpYi6ov5FcYDi1e", "did:web:issuer1.example"] {
                let mut j = honest.clone();
                j.class = format!("w3c-issuer:{}", s.0);
                j.muts = vec![Mut::WIssuer(i, iss.into())];
                jobs.push(j);
            }
            for cd in vw::CD_IDS {
                let mut j = honest.clone();
                j.class = format!("w3c-method:{}", s.0);
                j.muts = vec![Mut::WMethod(i, cd.into())];
                jobs.push(j);
                let mut j = honest.clone();
                j.class = format!("w3c-creddef:{}", s.0);
                j.muts = vec![Mut::WIdent(i, "cred_def_id", json!(cd))];
                jobs.push(j);
            }
        }
    }
    jobs
}

fn c05_jobs(r: &mut Rng, w: &World, thorough: bool) -> Vec<VJob> {
    let mut jobs = common_families(r, w, thorough);
    jobs.extend(crafted_c05(w));
    // a presentation without any credential (self-attested values only) is still bound to the request's nonce and to its
    // aggregated proof
    {
        let spec = ReqSpec::new(NONCE).attr("sa", "phone").attr("sb", "email");
        let mut honest = job("no-credentials:honest", Fmt::Legacy, &spec, &spec, vec![], w);
        honest.self_att = vec![("sa".into(), "555".into()), ("sb".into(), "x@y".into())];
        jobs.push(honest.clone());
        for other in ["999", "123432421213", "1"] {
            let mut j = honest.clone();
            j.class = "no-credentials:other-nonce".into();
            j.verify = ReqSpec::new(other).attr("sa", "phone").attr("sb", "email");
            jobs.push(j);
        }
        let mut j = honest.clone();
        j.class = "no-credentials:aggregated-proof-altered".into();
        j.muts = vec![Mut::AlterAgg];
        jobs.push(j);
    }
    for fmt in [Fmt::Legacy, Fmt::W3C] {
        for sname in ["two-creds-same-creddef", "two-creddefs-same-schema"] {
            let s = shapes().into_iter().find(|s| s.0 == sname).unwrap();
            for i in 0..2usize {
                for cd in [vw::CD_IDS[0], vw::CD_IDS[1], vw::CD_IDS[3]] {
                    let mut j = with_shape("relabel-creddef", fmt, w, &s);
                    j.muts = if fmt == Fmt::Legacy { vec![Mut::IdentSet(i, "cred_def_id", json!(cd))] } else { vec![Mut::WIdent(i, "cred_def_id", json!(cd)), Mut::WIssuer(i, if cd == vw::CD_IDS[0] { "NcYxiDXkpYi6ov5FcYDi1e".into() } else if cd == vw::CD_IDS[1] { "did:web:issuer1.example".into() } else { "did:web:issuer2.example".into() })] };
                    jobs.push(j);
                }
            }
        }
    }
    for fmt in [Fmt::Legacy, Fmt::W3C] {
        // a foreign holder's credential mixed in (proved with the presenting holder's link secret)
        let spec = ReqSpec::new(NONCE).attr("a_name", "name").attr("a_age", "age");
        jobs.push(job("foreign-credential", fmt, &spec, &spec, vec![pick(0, &[("a_name", true)], &[], None), pick(3, &[("a_age", true)], &[], None)], w));
        let mut j = job("foreign-credential-only", fmt, &spec, &spec, vec![pick(3, &[("a_name", true), ("a_age", true)], &[], None)], w);
        jobs.push(j.clone());
        j.holder = 1;
        j.class = "other-holder-honest".into();
        jobs.push(j);
        // W3C: a credential taken from ANOTHER presentation (other holder / same holder, other request) appended; it
        // serves no item of the request
        if fmt == Fmt::W3C {
            for (cred_b, holder_b, attr_b) in [(3usize, 1usize, "age"), (2, 0, "zipcode"), (3, 1, "name")] {
                let spec_a = ReqSpec::new(NONCE).attr("a_name", "name");
                let rf = format!("a_{}", attr_b);
                let spec_b = ReqSpec::new(NONCE).attr(&rf, attr_b);
                let Some(rb) = spec_b.build() else { continue };
                let Some((pb, provb, _)) = vw::make_w3c(w, &rb, &[pick(cred_b, &[(rf.as_str(), true)], &[], None)], holder_b) else { continue };
                let (Some(vc), Some(pv)) = (pb.verifiable_credential.first(), provb.first()) else { continue };
                let mut j = job("w3c-foreign-credential-appended", fmt, &spec_a, &spec_a, vec![pick(0, &[("a_name", true)], &[], None)], w);
                j.muts = vec![Mut::WCredAppend(serde_json::to_value(vc).unwrap(), pv.clone())];
                jobs.push(j.clone());
                // ... and with its revealed value rewritten
                j.muts.push(Mut::WSubjectSet(1, attr_b.into(), json!("Mallory")));
                jobs.push(j);
            }
        }
        // another credential definition registered under the id the presentation names
        for s in shapes().iter().filter(|s| s.3.is_empty() || fmt == Fmt::Legacy) {
            for (id_i, obj_i) in [(0usize, 3usize), (0, 1), (2, 0), (3, 0), (1, 0)] {
                let mut j = with_shape("ctx:other-creddef-under-same-id", fmt, w, s);
                j.ctx.cred_defs[id_i].1 = obj_i;
                jobs.push(j);
            }
            // every sub-proof and the aggregated proof perturbed (legacy JSON level)
            if fmt == Fmt::Legacy {
                for i in 0..s.2.len() {
                    let mut j = with_shape("altered", fmt, w, s);
                    j.muts = vec![Mut::AlterSub(i)];
                    jobs.push(j);
                }
                let mut j = with_shape("altered", fmt, w, s);
                j.muts = vec![Mut::AlterAgg];
                jobs.push(j);
            }
        }
    }
    jobs
}

fn crafted_c05(w: &World) -> Vec<VJob> {
    // credentials of two holders, each sub-proof built with its own holder's link secret
    let mut jobs = vec![];
    let enc = |ci: usize, n: &str| -> (String, String) {
        let v = &w.creds[ci].legacy.values.0;
        let a = v.iter().find(|(k, _)| vw::cvn(k) == vw::cvn(n)).unwrap().1;
        (a.raw.clone(), a.encoded.clone())
    };
    let spec = ReqSpec::new(NONCE).attr("a_name", "name").attr("a_age", "age").pred("p_h", "height", ">=", 100);
    for common in [false, true] {
        for (c0, l0, c1, l1) in [(0usize, 0usize, 3usize, 1usize), (0, 0, 3, 0), (0, 0, 5, 0), (3, 1, 0, 0), (0, 1, 3, 1)] {
            let (r0, e0) = enc(c0, "name");
            let (r1, e1) = enc(c1, "age");
            let rp = json!({"revealed_attrs": {"a_name": {"sub_proof_index": 0, "raw": r0, "encoded": e0}, "a_age": {"sub_proof_index": 1, "raw": r1, "encoded": e1}},
                            "revealed_attr_groups": {}, "self_attested_attrs": {}, "unrevealed_attrs": {}, "predicates": {"p_h": {"sub_proof_index": 0}}});
            let subs = vec![
                vw::CraftSub { cred: c0, link: l0, revealed: vec!["name".into()], preds: vec![("height".into(), "GE".into(), 100)] },
                vw::CraftSub { cred: c1, link: l1, revealed: vec!["age".into()], preds: vec![] },
            ];
            let mut j = job(if l0 != l1 { "crafted:two-link-secrets" } else { "crafted:one-link-secret" }, Fmt::Legacy, &spec, &spec, vec![], w);
            j.craft = Some((subs.clone(), common, rp));
            jobs.push(j);
            // the same joint proof inside a W3C presentation
            let mut j = job(if l0 != l1 { "crafted-w3c:two-link-secrets" } else { "crafted-w3c:one-link-secret" }, Fmt::W3C, &spec, &spec,
                            vec![pick(c0, &[("a_name", true)], &["p_h"], None), pick(c1, &[("a_age", true)], &[], None)], w);
            j.craft = Some((subs, common, json!({})));
            jobs.push(j);
        }
    }
    jobs
}

fn c02_jobs(r: &mut Rng, w: &World, thorough: bool) -> Vec<VJob> {
    let mut jobs = common_families(r, w, thorough);
    // two credentials of ONE revocable definition and registry in one presentation (equal identifiers when both are shown
    // without, or with the same, timestamp): the interval of each is decided by the referents IT serves
    for fmt in [Fmt::Legacy, Fmt::W3C] {
        for (l1, l8) in [(None, None), (Some(0usize), None), (None, Some(0usize)), (Some(0), Some(0)), (Some(1), Some(1)), (Some(2), Some(2)), (Some(0), Some(2))] {
            for (iv_on, iv) in [("second", (Some(50u64), Some(350u64))), ("first", (Some(50), Some(350))), ("second", (Some(150), None)), ("none", (None, None))] {
                let build = ReqSpec::new(NONCE).attr("a_name", "name").attr("a_sex", "sex").pred("p_age", "age", ">=", 18);
                let mut verify = build.clone();
                match iv_on { "second" => verify = verify.local("a_sex", iv), "first" => verify = verify.local("a_name", iv), _ => {} }
                let mut j = job("two-credentials-one-registry", fmt, &build, &verify, vec![pick(1, &[("a_name", true)], &["p_age"], l1), pick(8, &[("a_sex", true)], &[], l8)], w);
                j.base = Base::StripIntervals;
                jobs.push(j);
            }
        }
    }
    // ... the second one is shown with the state of an OLD list while naming the timestamp of a list in which it is revoked
    for fmt in [Fmt::Legacy, Fmt::W3C] {
        for (iv_on, iv) in [("second", (Some(150u64), Some(350u64))), ("global", (Some(150), Some(350))), ("second", (None, Some(350)))] {
            let build = ReqSpec::new(NONCE).attr("a_name", "name").attr("a_sex", "sex");
            let verify = if iv_on == "second" { build.clone().local("a_sex", iv).local("a_name", (None, Some(350))) } else { build.clone().global(iv) };
            for ts in [300u64, 200] {
                // (built for the request with its intervals, so that both sub-proofs carry a non-revocation part)
                let mut j = job("two-credentials-one-registry:stale-state-newer-timestamp", fmt, &verify, &verify, vec![pick(8, &[("a_name", true)], &[], Some(0)), pick(1, &[("a_sex", true)], &[], Some(0))], w);
                j.muts = if fmt == Fmt::Legacy { vec![Mut::IdentSet(1, "timestamp", json!(ts))] } else { vec![Mut::WIdent(1, "timestamp", json!(ts))] };
                j.base = Base::StripIntervals;
                jobs.push(j);
            }
        }
    }
    // intervals whose bounds coincide
    for fmt in [Fmt::Legacy, Fmt::W3C] {
        for list in [Some(0usize), Some(1), Some(2)] {
            for t in [100u64, 200, 300, 150] {
                for place in ["global", "local"] {
                    let build = ReqSpec::new(NONCE).attr("a_name", "name");
                    let verify = if place == "global" { build.clone().global((Some(t), Some(t))) } else { build.clone().local("a_name", (Some(t), Some(t))) };
                    let mut j = job("interval:from-equals-to", fmt, &build, &verify, vec![pick(1, &[("a_name", true)], &[], list)], w);
                    j.base = Base::StripIntervals;
                    jobs.push(j);
                }
            }
        }
    }
    jobs.extend(two_locals_jobs(w));
    // credential 1 (index 1 of the registry) is valid in lists 0,1 and revoked in list 2;
    // credential 4 (index 2, holder 1) is valid in list 0 only
    let ivs: Vec<Option<Iv>> = vec![None, Some((None, None)), Some((Some(50), Some(400))), Some((Some(250), None)), Some((None, Some(150)))];
    for fmt in [Fmt::Legacy, Fmt::W3C] {
        for (cred, holder) in [(1usize, 0usize), (4, 1)] {
            for list in [None, Some(0usize), Some(1), Some(2)] {
                for placement in ["global", "revealed", "unrevealed", "predicate", "group"] {
                    for iv in &ivs {
                        if iv.is_none() && placement != "global" {
                            continue;
                        }
                        let mut spec = ReqSpec::new(NONCE).attr("a_name", "name").attr("a_sex", "sex").pred("p_h", "height", ">=", 100).group("g", &["age", "sex"]);
                        if let Some(iv) = iv {
                            spec = match placement {
                                "global" => spec.global(*iv),
                                "revealed" => spec.local("a_name", *iv),
                                "unrevealed" => spec.local("a_sex", *iv),
                                "predicate" => spec.local("p_h", *iv),
                                _ => spec.local("g", *iv),
                            };
                        }
                        let picks = vec![pick(cred, &[("a_name", true), ("a_sex", false), ("g", true)], &["p_h"], list)];
                        let mut base = job(&format!("revocation:{}", placement), fmt, &spec, &spec, picks, w);
                        base.holder = holder;
                        jobs.push(base.clone());
                        if !thorough && r.chance(2, 3) {
                            continue;
                        }
                        // holder strategies on the unauthenticated parts
                        let strategies: Vec<(&str, Vec<Mut>)> = if fmt == Fmt::Legacy {
                            vec![
                                ("strip-rev-reg-id", vec![Mut::IdentSet(0, "rev_reg_id", Value::Null)]),
                                ("strip-timestamp", vec![Mut::IdentSet(0, "timestamp", Value::Null)]),
                                ("forge-timestamp-100", vec![Mut::IdentSet(0, "timestamp", json!(100)), Mut::IdentSet(0, "rev_reg_id", json!(vw::REG_ID))]),
                                ("forge-timestamp-200", vec![Mut::IdentSet(0, "timestamp", json!(200)), Mut::IdentSet(0, "rev_reg_id", json!(vw::REG_ID))]),
                                ("timestamp-without-list-150", vec![Mut::IdentSet(0, "timestamp", json!(150)), Mut::IdentSet(0, "rev_reg_id", json!(vw::REG_ID))]),
                                ("timestamp-without-list-250", vec![Mut::IdentSet(0, "timestamp", json!(250)), Mut::IdentSet(0, "rev_reg_id", json!(vw::REG_ID))]),
                                ("timestamp-without-list-350", vec![Mut::IdentSet(0, "timestamp", json!(350)), Mut::IdentSet(0, "rev_reg_id", json!(vw::REG_ID))]),
                                ("move-revealed-to-unrevealed", vec![Mut::MoveRef("revealed_attrs", "unrevealed_attrs", "a_name".into())]),
                            ]
                        } else {
                            vec![
                                ("strip-rev-reg-id", vec![Mut::WIdent(0, "rev_reg_id", Value::Null)]),
                                ("strip-timestamp", vec![Mut::WIdent(0, "timestamp", Value::Null)]),
                                ("forge-timestamp-100", vec![Mut::WIdent(0, "timestamp", json!(100)), Mut::WIdent(0, "rev_reg_id", json!(vw::REG_ID))]),
                                ("forge-timestamp-200", vec![Mut::WIdent(0, "timestamp", json!(200)), Mut::WIdent(0, "rev_reg_id", json!(vw::REG_ID))]),
                                ("timestamp-without-list-150", vec![Mut::WIdent(0, "timestamp", json!(150)), Mut::WIdent(0, "rev_reg_id", json!(vw::REG_ID))]),
                                ("timestamp-without-list-250", vec![Mut::WIdent(0, "timestamp", json!(250)), Mut::WIdent(0, "rev_reg_id", json!(vw::REG_ID))]),
                            ]
                        };
                        for (name, muts) in strategies {
                            let mut j = base.clone();
                            j.class = format!("revocation-strategy:{}", name);
                            j.muts = muts;
                            jobs.push(j);
                        }
                    }
                }
            }
        }
    }
    jobs
}

/// an attribute referent and a predicate referent of ONE credential, each with its own local interval
fn two_locals_jobs(w: &World) -> Vec<VJob> {
    let mut jobs = vec![];
    for fmt in [Fmt::Legacy, Fmt::W3C] {
        for (a, b) in [((Some(50u64), Some(400u64)), (Some(250u64), None)), ((Some(250), None), (Some(50), Some(400))), ((None, Some(250)), (Some(150), None)), ((Some(150), None), (None, Some(250)))] {
            for list in [Some(0usize), Some(1), Some(2)] {
                let build = ReqSpec::new(NONCE).attr("a_name", "name").pred("p_h", "height", ">=", 100).global((None, None));
                let verify = ReqSpec::new(NONCE).attr("a_name", "name").pred("p_h", "height", ">=", 100).local("a_name", a).local("p_h", b);
                jobs.push(job("revocation:attribute-and-predicate-intervals", fmt, &build, &verify, vec![pick(1, &[("a_name", true)], &["p_h"], list)], w));
            }
        }
    }
    jobs
}

fn c08_jobs(_r: &mut Rng, w: &World, thorough: bool) -> Vec<VJob> {
    // fixed honest presentations (built for an interval-free request with a revocation state),
    // re-verified under requests that differ only in their intervals
    let mut jobs = vec![];
    let bounds: Vec<Option<u64>> = if thorough { vec![None, Some(99), Some(100), Some(101), Some(199), Some(200), Some(201), Some(300)] } else { vec![None, Some(100), Some(101), Some(199), Some(200)] };
    let mut ivs: Vec<Option<Iv>> = vec![None];
    for f in &bounds {
        for t in &bounds {
            if thorough || f.is_none() || t.is_none() || (f.unwrap() % 100 != 99 && t.unwrap() % 100 != 1) {
                ivs.push(Some((*f, *t)));
            }
        }
    }
    for fmt in [Fmt::Legacy, Fmt::W3C] {
        for list in [Some(0usize), Some(1), None] {
            for (gi, g) in ivs.iter().enumerate() {
                for (li, l1) in ivs.iter().enumerate() {
                    // sparse product: all pairs where one side is absent, plus a diagonal band
                    if !(g.is_none() || l1.is_none() || (gi + li) % 7 == 0) {
                        continue;
                    }
                    for (pi, placement) in ["revealed", "unrevealed", "predicate"].iter().enumerate() {
                        if l1.is_none() && pi > 0 {
                            continue;
                        }
                        let build = ReqSpec::new(NONCE).attr("a_name", "name").attr("a_sex", "sex").pred("p_h", "height", ">=", 100).global((None, None));
                        let mut verify = ReqSpec::new(NONCE).attr("a_name", "name").attr("a_sex", "sex").pred("p_h", "height", ">=", 100);
                        if let Some(g) = g {
                            verify = verify.global(*g);
                        }
                        if let Some(l) = l1 {
                            verify = verify.local(["a_name", "a_sex", "p_h"][pi], *l);
                        }
                        let mut j = job(&format!("intervals:{}", placement), fmt, &build, &verify, vec![pick(1, &[("a_name", true), ("a_sex", false)], &["p_h"], list)], w);
                        j.base = Base::StripIntervals;
                        jobs.push(j.clone());
                        // with an override of the lower bound
                        if (gi + li) % 3 == 0 {
                            for (from, to) in [(150u64, 50u64), (101, 100), (250, 80)] {
                                let mut k = j.clone();
                                k.class = "intervals:override".into();
                                k.ctx.ovr = Some(vec![(vw::REG_ID.to_string(), vec![(from, to)]), ("other:reg".to_string(), vec![(100, 1)])]);
                                jobs.push(k);
                            }
                            // maps that lead back to where they started: an override is applied ONCE
                            if (gi + li) % 9 == 0 && pi == 0 {
                            for m in [vec![(100u64, 100u64)], vec![(100, 50), (50, 100)], vec![(101, 199), (199, 101)], vec![(200, 100), (100, 200)], vec![(199, 199), (101, 101), (100, 100), (200, 200)]] {
                                let mut k = j.clone();
                                k.class = "intervals:override-cyclic".into();
                                k.ctx.ovr = Some(vec![(vw::REG_ID.to_string(), m)]);
                                jobs.push(k);
                            }
                            }
                        }
                    }
                }
            }
        }
        // two local intervals on referents served by the same credential; a second, non-revocable credential
        for (a, b) in [((Some(50), Some(150)), (Some(90), None)), ((Some(150), None), (None, Some(120))), ((None, Some(100)), (Some(100), None)), ((Some(101), None), (None, Some(250)))] {
            for list in [Some(0usize), Some(1)] {
                let build = ReqSpec::new(NONCE).attr("a_name", "name").attr("a_zip", "zipcode").pred("p_h", "height", ">=", 100).global((None, None));
                let verify = ReqSpec::new(NONCE).attr("a_name", "name").attr("a_zip", "zipcode").pred("p_h", "height", ">=", 100).local("a_name", a).local("p_h", b).local("a_zip", (Some(1), Some(2)));
                let mut j = job("intervals:two-locals+nonrevocable", fmt, &build, &verify, vec![pick(1, &[("a_name", true)], &["p_h"], list), pick(2, &[("a_zip", true)], &[], None)], w);
                j.base = Base::StripIntervals;
                jobs.push(j.clone());
                j.ctx.lists = Some(vec![2]);
                j.class = "intervals:no-list-for-timestamp".into();
                jobs.push(j);
            }
        }
        // two credentials of ONE definition and registry shown for the same list (equal identifiers): the interval of each
        // is decided by the referents IT serves - a local interval on one of them, the other under the request-wide one or none
        for (l1, l8) in [(Some(0usize), Some(0usize)), (Some(1), Some(1)), (Some(0), Some(1)), (Some(1), None), (None, Some(1)), (None, None)] {
            for local in [Some((Some(50u64), Some(350u64))), Some((Some(150), None)), Some((None, Some(150))), Some((Some(250), Some(400))), None] {
                for global in [None, Some((Some(50u64), Some(150u64))), Some((Some(250), None)), Some((None, Some(250)))] {
                    for on_first in [true, false] {
                        if local.is_none() && !on_first {
                            continue;
                        }
                        let build = ReqSpec::new(NONCE).attr("a_name", "name").attr("a_sex", "sex").pred("p_age", "age", ">=", 18).global((None, None));
                        let mut verify = ReqSpec::new(NONCE).attr("a_name", "name").attr("a_sex", "sex").pred("p_age", "age", ">=", 18);
                        if let Some(g) = global {
                            verify = verify.global(g);
                        }
                        if let Some(l) = local {
                            verify = verify.local(if on_first { "a_name" } else { "a_sex" }, l);
                        }
                        let mut j = job("intervals:two-credentials-one-registry", fmt, &build, &verify, vec![pick(1, &[("a_name", true)], &["p_age"], l1), pick(8, &[("a_sex", true)], &[], l8)], w);
                        j.base = Base::StripIntervals;
                        jobs.push(j);
                    }
                }
            }
        }
        // the status list stamped 0 (a timestamp like any other)
        for g in [(None, Some(50u64)), (None, None), (Some(0), Some(10)), (Some(1), Some(50))] {
            for placement in ["global", "local"] {
                let build = ReqSpec::new(NONCE).attr("a_name", "name").global((None, None));
                let verify = if placement == "global" { ReqSpec::new(NONCE).attr("a_name", "name").global(g) } else { ReqSpec::new(NONCE).attr("a_name", "name").local("a_name", g) };
                let mut j = job("intervals:list-stamped-zero", fmt, &build, &verify, vec![pick(1, &[("a_name", true)], &[], Some(3))], w);
                j.base = Base::StripIntervals;
                jobs.push(j);
            }
        }
        // the prover names a timestamp for which no list is supplied (earlier and later lists exist)
        for (g, ts) in [((Some(120), Some(180)), 150u64), ((None, Some(260)), 250), ((Some(310), None), 350), ((None, None), 150)] {
            for list in [Some(0usize), Some(1)] {
                let build = ReqSpec::new(NONCE).attr("a_name", "name").global((None, None));
                let verify = ReqSpec::new(NONCE).attr("a_name", "name").global(g);
                let mut j = job("intervals:timestamp-named-without-list", fmt, &build, &verify, vec![pick(1, &[("a_name", true)], &[], list)], w);
                j.base = Base::StripIntervals;
                j.muts = if fmt == Fmt::Legacy { vec![Mut::IdentSet(0, "timestamp", json!(ts))] } else { vec![Mut::WIdent(0, "timestamp", json!(ts))] };
                jobs.push(j);
            }
        }
        // non-revocable credential only: intervals are ignored
        for g in [Some((Some(5), Some(6))), None] {
            let build = ReqSpec::new(NONCE).attr("a_name", "name");
            let mut verify = ReqSpec::new(NONCE).attr("a_name", "name").local("a_name", (Some(1), Some(2)));
            if let Some(g) = g {
                verify = verify.global(g);
            }
            let mut j = job("intervals:non-revocable", fmt, &build, &verify, vec![pick(0, &[("a_name", true)], &[], None)], w);
            j.base = Base::StripIntervals;
            jobs.push(j);
        }
    }
    for mut j2 in two_locals_jobs(w) {
        j2.base = Base::StripIntervals;
        j2.class = "intervals:attribute-and-predicate-locals".into();
        jobs.push(j2);
    }
    jobs
}

fn query_pool(depth: u32) -> Vec<Value> {
    let leaves: Vec<Value> = vec![
        json!({"schema_id": vw::SCHEMA_IDS[0]}), json!({"schema_id": vw::SCHEMA_IDS[2]}), json!({"schema_name": "gvt"}), json!({"schema_name": "gvt2"}),
        json!({"schema_version": "1.0"}), json!({"schema_issuer_did": "NcYxiDXkpYi6ov5FcYDi1e"}), json!({"schema_issuer_id": "NcYxiDXkpYi6ov5FcYDi1e"}),
        json!({"issuer_did": "NcYxiDXkpYi6ov5FcYDi1e"}), json!({"issuer_id": "did:web:issuer1.example"}), json!({"issuer_did": "did:web:issuer1.example"}),
        json!({"cred_def_id": vw::CD_IDS[0]}), json!({"cred_def_id": vw::CD_IDS[1]}),
        json!({"attr::name::value": "Alex"}), json!({"attr::name::value": "Bob"}), json!({"attr::Name::value": "Alex"}), json!({"attr::Name::value": "Bob"}),
        json!({"attr::N a m e::value": "Mallory"}), json!({"attr::NAME::marker": "1"}), json!({"attr::Zip Code::value": "008"}), json!({"attr::zipcode::value": "007"}), json!({"attr::name::marker": "1"}), json!({"attr::sex::value": "male"}),
        json!({"attr::zip::marker": "1"}), json!({"attr::age::value": "28"}), json!({"unknown_tag": "x"}), json!({"schema_name": {"$neq": "gvt"}}),
        json!({"schema_name": {"$in": ["gvt", "other"]}}), json!({"schema_name": {"$in": ["other"]}}), json!({"schema_name": {"$like": "gvt"}}), json!({"schema_version": {"$gt": "0"}}),
        json!({"$exist": ["schema_name"]}), json!({}),
    ];
    if depth == 0 {
        return leaves;
    }
    let mut res = leaves.clone();
    let sub = query_pool(depth - 1);
    for (i, a) in sub.iter().enumerate() {
        res.push(json!({"$not": a}));
        for (k, b) in sub.iter().enumerate() {
            if (i * 31 + k * 17) % 23 == 0 {
                res.push(json!({"$and": [a, b]}));
                res.push(json!({"$or": [a, b]}));
                res.push(json!([a, b]));
            }
        }
    }
    res
}

fn c06_jobs(r: &mut Rng, w: &World, thorough: bool) -> Vec<VJob> {
    let mut jobs = vec![];
    let pool = query_pool(if thorough { 2 } else { 1 });
    for fmt in [Fmt::Legacy, Fmt::W3C] {
        // fixed presentations; only the restriction varies
        let setups: Vec<(&str, ReqSpec, Vec<Pick>, Vec<&str>)> = vec![
            ("one-cred", ReqSpec::new(NONCE).attr("a_name", "name").attr("a_sex", "sex").pred("p_age", "age", ">=", 18).group("g", &["name", "height"]),
             vec![pick(0, &[("a_name", true), ("a_sex", false), ("g", true)], &["p_age"], None)], vec!["a_name", "a_sex", "p_age", "g"]),
            ("unrevealed-group-and-predicate", ReqSpec::new(NONCE).group("g", &["name", "height"]).attr("a_sex", "sex").pred("p_age", "age", ">=", 18),
             vec![pick(0, &[("g", false), ("a_sex", false)], &["p_age"], None)], vec!["p_age", "g", "a_sex"]),
            ("two-creds", ReqSpec::new(NONCE).attr("a_name", "name").attr("a_zip", "zipcode").pred("p_sal", "salary", ">", 1000),
             vec![pick(1, &[("a_name", true)], &[], None), pick(2, &[("a_zip", true)], &["p_sal"], None)], vec!["a_name", "a_zip", "p_sal"]),
            ("case-variant", ReqSpec::new(NONCE).attr("a_name", "Name").attr("a_age", "age").attr("a_zip", "Zip Code"),
             vec![pick(2, &[("a_name", true), ("a_age", false), ("a_zip", true)], &[], None)], vec!["a_name", "a_age", "a_zip"]),
            ("same-key-attr-and-pred", ReqSpec::new(NONCE).attr("1", "name").pred("1", "salary", ">", 1000),
             vec![pick(1, &[("1", true)], &[], None), pick(2, &[], &["1"], None)], vec!["1"]),
            // two credentials over ONE schema from different credential definitions / issuers
            ("same-schema-two-creddefs", ReqSpec::new(NONCE).attr("a_name", "name").attr("a_h", "height").pred("p_age", "age", ">=", 18),
             vec![pick(0, &[("a_name", true)], &[], None), pick(1, &[("a_h", true)], &["p_age"], None)], vec!["a_name", "a_h", "p_age"]),
        ];
        for (sname, spec, picks, refs) in &setups {
            for q in &pool {
                for rf in refs {
                    if !thorough && pool.len() > 200 && r.chance(3, 4) {
                        continue;
                    }
                    let verify = spec.clone().restr(rf, q.clone());
                    let mut j = job(&format!("restriction:{}:{}", sname, if rf.starts_with("p_") { "predicate" } else if *rf == "g" { "group" } else { "attribute" }), fmt, spec, &verify, picks.clone(), w);
                    j.base = Base::StripRestrictions;
                    jobs.push(j);
                }
            }
            // the same restriction on two referents served by different credentials
            if refs.len() >= 2 && (*sname == "same-schema-two-creddefs" || *sname == "two-creds") {
                for q in &pool {
                    if !thorough && pool.len() > 100 && r.chance(1, 2) {
                        continue;
                    }
                    let verify = spec.clone().restr(refs[0], q.clone()).restr(refs[refs.len() - 1], q.clone());
                    let mut j = job(&format!("restriction:{}:two-referents", sname), fmt, spec, &verify, picks.clone(), w);
                    j.base = Base::StripRestrictions;
                    jobs.push(j);
                }
            }
            // the prover rewrites the identifier's schema_id / cred_def_id (unauthenticated) to meet a false restriction
            for q in [json!({"schema_name": "gvt2"}), json!({"schema_id": vw::SCHEMA_IDS[2]}), json!({"cred_def_id": vw::CD_IDS[3]}), json!({"issuer_id": "did:web:issuer2.example"})] {
                let verify = spec.clone().restr(refs[0], q);
                let mut j = job("restriction:identifier-rewritten", fmt, spec, &verify, picks.clone(), w);
                j.base = Base::StripRestrictions;
                j.muts = if fmt == Fmt::Legacy { vec![Mut::IdentSet(0, "schema_id", json!(vw::SCHEMA_IDS[2]))] } else { vec![Mut::WIdent(0, "schema_id", json!(vw::SCHEMA_IDS[2]))] };
                jobs.push(j.clone());
                j.muts = if fmt == Fmt::Legacy { vec![Mut::IdentSet(0, "cred_def_id", json!(vw::CD_IDS[3]))] } else { vec![Mut::WIdent(0, "cred_def_id", json!(vw::CD_IDS[3]))] };
                jobs.push(j);
            }
        }
        // every pair of the four issuer tags, with values true of the credential: in one filter, under $and / $or, and on two
        // different referents (the legacy form refuses `issuer_id` with `issuer_did` and `schema_issuer_id` with `schema_issuer_did`: the recorded finding)
        {
            let spec = ReqSpec::new(NONCE).attr("a_name", "name").attr("a_h", "height").pred("p_age", "age", ">=", 18);
            // credential 0: schema and definition by the same legacy DID; credential 1: the definition by a did:web issuer
            for (picks, cd_issuer) in [
                (vec![pick(0, &[("a_name", true), ("a_h", true)], &["p_age"], None)], "NcYxiDXkpYi6ov5FcYDi1e"),
                (vec![pick(1, &[("a_name", true), ("a_h", true)], &["p_age"], None)], "did:web:issuer1.example"),
            ] {
                let tags = [("schema_issuer_id", "NcYxiDXkpYi6ov5FcYDi1e"), ("schema_issuer_did", "NcYxiDXkpYi6ov5FcYDi1e"), ("issuer_id", cd_issuer), ("issuer_did", cd_issuer)];
                for (i, (t1, v1)) in tags.iter().enumerate() {
                    for (t2, v2) in tags.iter().skip(i + 1) {
                        let (f1, f2) = (json!({*t1: v1}), json!({*t2: v2}));
                        let forms = [json!({*t1: v1, *t2: v2}), json!({"$and": [f1.clone(), f2.clone()]}), json!({"$or": [f1.clone(), f2.clone()]}), json!([f1.clone(), f2.clone()]), json!({"$not": {"$or": [f1.clone(), {"$not": f2.clone()}]}})];
                        for q in forms {
                            for rf in ["a_name", "p_age"] {
                                let verify = spec.clone().restr(rf, q.clone());
                                let mut j = job("restriction:issuer-tag-pairs", fmt, &spec, &verify, picks.clone(), w);
                                j.base = Base::StripRestrictions;
                                jobs.push(j);
                            }
                        }
                        let verify = spec.clone().restr("a_name", f1.clone()).restr("p_age", f2.clone());
                        let mut j = job("restriction:issuer-tag-pairs:two-referents", fmt, &spec, &verify, picks.clone(), w);
                        j.base = Base::StripRestrictions;
                        jobs.push(j);
                    }
                }
            }
        }
        // two credentials from different issuers prove the SAME predicate (and reveal the same attribute); a restriction or
        // interval on one referent is met by the later credential only: the search must move on to it
        {
            let spec = ReqSpec::new(NONCE).pred("p1", "age", ">=", 18).pred("p2", "age", ">=", 18).attr("a1", "name").attr("a2", "name");
            let picks = vec![pick(0, &[("a1", true)], &["p1"], None), pick(5, &[("a2", true)], &["p2"], None)];
            for q in [json!({"cred_def_id": vw::CD_IDS[3]}), json!({"issuer_id": "did:web:issuer2.example"}), json!({"schema_name": "gvt2"}), json!({"cred_def_id": vw::CD_IDS[0]}), json!({"schema_name": "nope"})] {
                for rf in ["p2", "a2", "p1"] {
                    let verify = spec.clone().restr(rf, q.clone());
                    let mut j = job("restriction:same-predicate-from-two-issuers", fmt, &spec, &verify, picks.clone(), w);
                    j.base = Base::StripRestrictions;
                    jobs.push(j);
                }
            }
        }
        // two credentials of ONE credential definition (equal identifiers): a value restriction on a referent is about the
        // credential serving THAT referent; the other credential reveals a different value for the same attribute
        {
            let spec = ReqSpec::new(NONCE).attr("a_name", "name").pred("p_age", "age", ">=", 18).attr("a_h", "height");
            // credential 6 ("Alexa") reveals the name; credential 0 ("Alex") proves the predicate and reveals the height
            let picks = vec![pick(6, &[("a_name", true)], &[], None), pick(0, &[("a_h", true)], &["p_age"], None)];
            for q in [json!({"attr::name::value": "Alexa"}), json!({"attr::name::value": "Alex"}), json!({"attr::height::value": "175"}), json!({"attr::height::value": "168"}),
                      json!({"attr::name::marker": "1"}), json!({"$not": {"attr::name::value": "Alexa"}})] {
                for rf in ["p_age", "a_name", "a_h"] {
                    let verify = spec.clone().restr(rf, q.clone());
                    let mut j = job("restriction:two-credentials-one-creddef", fmt, &spec, &verify, picks.clone(), w);
                    j.base = Base::StripRestrictions;
                    jobs.push(j);
                }
            }
        }
        // legacy: a referent listed twice - revealed from one credential AND unrevealed under another; the restriction
        // is true of the credential of the unrevealed entry only, the value shown comes from the other one
        if fmt == Fmt::Legacy {
            let spec = ReqSpec::new(NONCE).attr("a_name", "name").attr("a_zip", "zipcode");
            let picks = vec![pick(0, &[("a_name", true)], &[], None), pick(2, &[("a_zip", true)], &[], None)];
            for q in [json!({"cred_def_id": vw::CD_IDS[2]}), json!({"schema_id": vw::SCHEMA_IDS[1]}), json!({"cred_def_id": vw::CD_IDS[0]}), json!({"$not": {"cred_def_id": vw::CD_IDS[0]}})] {
                let verify = spec.clone().restr("a_name", q);
                let mut j = job("restriction:referent-revealed-and-unrevealed", fmt, &spec, &verify, picks.clone(), w);
                j.base = Base::StripRestrictions;
                j.muts = vec![Mut::AddUnrev("a_name".into(), 1)];
                jobs.push(j.clone());
                j.muts = vec![Mut::AddUnrev("a_name".into(), 0)];
                jobs.push(j);
            }
        }
        // W3C has no referent map: a restricted group whose names come from different credentials
        if fmt == Fmt::W3C {
            let build = ReqSpec::new(NONCE).attr("a_name", "name").attr("a_zip", "zipcode");
            for q in &pool {
                if !thorough && r.chance(2, 3) {
                    continue;
                }
                let verify = ReqSpec::new(NONCE).group("g", &["name", "zipcode"]).restr("g", q.clone());
                let mut j = job("restriction:w3c-group-over-two-credentials", fmt, &build, &verify, vec![pick(0, &[("a_name", true)], &[], None), pick(2, &[("a_zip", true)], &[], None)], w);
                j.base = Base::StripRestrictions;
                jobs.push(j);
            }
        }
        // restricted referent met by self-attestation (legacy only has the map)
        if fmt == Fmt::Legacy {
            for q in [json!({"schema_name": "gvt"}), json!({}), json!({"$or": []}), json!({"$and": []}), json!({"$not": {"schema_name": "x"}}),
                      // restrictions without a leaf that are not the two empty forms
                      json!({"$or": [{}]}), json!({"$and": [{}]}), json!({"$and": [{"$or": []}]}), json!({"$not": {}}), json!({"$or": [{"$and": []}, {}]}), json!([{}]), json!({"$not": {"$not": {}}})] {
                let build = ReqSpec::new(NONCE).attr("a_name", "name").attr("sa", "phone");
                let verify = build.clone().restr("sa", q);
                let mut j = job("restriction:self-attested", fmt, &build, &verify, vec![pick(0, &[("a_name", true)], &[], None)], w);
                j.self_att = vec![("sa".into(), "555".into())];
                j.base = Base::StripRestrictions;
                jobs.push(j);
            }
        }
    }
    jobs
}

fn c12_jobs(r: &mut Rng, w: &World, thorough: bool) -> Vec<VJob> {
    let mut jobs = common_families(r, w, thorough);
    // denser structural mutation, 1-4 rewrites per presentation, against all request shapes
    let n = if thorough { 400 } else { 60 };
    for fmt in [Fmt::Legacy, Fmt::W3C] {
        for s in shapes() {
            if fmt == Fmt::W3C && !s.3.is_empty() {
                continue;
            }
            for _ in 0..n {
                let mut j = with_shape("structural", fmt, w, &s);
                for _ in 0..(1 + r.below(4)) {
                    let m = if fmt == Fmt::Legacy { legacy_structural(r, &j) } else { w3c_structural(r, &j) };
                    j.muts.extend(m);
                }
                if r.chance(1, 4) {
                    let sibs = siblings(&s.1);
                    j.verify = r.pick(&sibs).1.clone();
                }
                jobs.push(j);
            }
        }
    }
    // the two indexing sites named in DESIGN.md: more identifiers than proofs; a referent both revealed and
    // self-attested while a restricted predicate shares its sub-proof; extreme predicate thresholds
    let s = &shapes()[0];
    let mut j = with_shape("targeted:identifiers-longer-than-proofs", Fmt::Legacy, w, s);
    j.muts = vec![Mut::IdentDup(0)];
    jobs.push(j);
    // ... with a referent of each kind pointing at the surplus identifier
    for (map, rf) in [("predicates", "p_age"), ("unrevealed_attrs", "a_sex"), ("revealed_attrs", "a_name")] {
        for at in [1u64, 2] {
            let mut j = with_shape("targeted:identifiers-longer-than-proofs+referent-at-surplus", Fmt::Legacy, w, s);
            j.muts = vec![Mut::IdentDup(0), Mut::Reindex(map, rf.to_string(), at)];
            jobs.push(j);
        }
    }
    // ... and the converse: more sub-proofs than identifiers
    let mut j = with_shape("targeted:proofs-longer-than-identifiers", Fmt::Legacy, w, s);
    j.muts = vec![Mut::ProofDup(0)];
    jobs.push(j);
    let mut j = with_shape("targeted:revealed-and-self-attested+restricted-predicate", Fmt::Legacy, w, s);
    j.verify = s.1.clone().restr("p_age", json!({"schema_name": "gvt"}));
    j.muts = vec![Mut::AddSelf("a_name".into(), "x".into())];
    jobs.push(j);
    // override maps the verifier application supplies, including maps that lead back to where they started (the call is
    // given a time limit: not returning counts like a crash)
    for fmt in [Fmt::Legacy, Fmt::W3C] {
        for m in [vec![(80u64, 80u64)], vec![(80, 50), (50, 80)], vec![(80, 250), (250, 80)], vec![(80, 70), (70, 60), (60, 80)], vec![(80, 10)]] {
            for s in shapes().iter().filter(|s| s.0 == "revocable-global") {
                let mut j = with_shape("targeted:override-map", fmt, w, s);
                j.ctx.ovr = Some(vec![(vw::REG_ID.to_string(), m.clone())]);
                jobs.push(j);
            }
        }
    }
    // an honest but unusual combination: one credential serves a restricted predicate and an unrevealed group / unrevealed
    // single attribute (the restriction stage gathers the values revealed by that credential)
    for fmt in [Fmt::Legacy, Fmt::W3C] {
        for (g_rev, a_rev) in [(false, false), (false, true), (true, false)] {
            let spec = ReqSpec::new(NONCE).group("g", &["name", "height"]).attr("a_sex", "sex").pred("p_age", "age", ">=", 18);
            for q in [json!({"schema_name": "gvt"}), json!({"attr::name::value": "Alex"}), json!({"attr::sex::marker": "1"})] {
                let verify = spec.clone().restr("p_age", q);
                jobs.push(job("targeted:restricted-predicate-with-unrevealed-group", fmt, &spec, &verify, vec![pick(0, &[("g", g_rev), ("a_sex", a_rev)], &["p_age"], None)], w));
            }
        }
    }
    for (t, v) in [("GT", 2147483647i64), ("LT", -2147483648), ("GE", 2147483647), ("LE", -2147483648), ("GT", 2147483646), ("LT", -2147483647)] {
        let mut j = with_shape("targeted:extreme-threshold-inside-proof", Fmt::Legacy, w, s);
        j.muts = vec![Mut::EditProofPred(0, t, v)];
        jobs.push(j);
    }
    for (op, v) in [(">", 2147483647i64), ("<", -2147483648), (">=", 2147483647), ("<=", -2147483648)] {
        for fmt in [Fmt::Legacy, Fmt::W3C] {
            let spec = ReqSpec::new(NONCE).attr("a_name", "name").pred("p", "age", op, v);
            jobs.push(job("targeted:extreme-threshold", fmt, &spec, &spec, vec![pick(0, &[("a_name", true)], &["p"], None)], w));
        }
    }
    jobs
}

fn iv_sx(i: &anoncreds::data_types::pres_request::NonRevokedInterval) -> String {
    format!("({} {})", crate::sx::opt(i.from, |x| crate::sx::n(x)), crate::sx::opt(i.to, |x| crate::sx::n(x)))
}

/// C08: the interval functions driven directly (they are public / re-exported under the guard)
fn interval_unit_cases(out: &mut Out, r: &mut Rng, thorough: bool) {
    use anoncreds::data_types::pres_request::NonRevokedInterval as NI;
    use anoncreds::data_types::rev_reg_def::RevocationRegistryDefinitionId as RId;
    let bounds: Vec<Option<u64>> = vec![None, Some(0), Some(1), Some(99), Some(100), Some(101), Some(200), Some(u64::MAX - 1), Some(u64::MAX)];
    let all: Vec<NI> = bounds.iter().flat_map(|f| bounds.iter().map(move |t| NI::new(*f, *t))).collect();
    for a in &all {
        for b in &all {
            if !thorough && r.chance(2, 3) {
                continue;
            }
            let mut m = a.clone();
            m.compare_and_set(b);
            let id = out.next_id();
            out.case(&format!("(C08 {} M {} {} {})", id, iv_sx(a), iv_sx(b), iv_sx(&m)), "unit:compare_and_set", || json!({"kind": "compare_and_set", "a": iv_sx(a), "b": iv_sx(b)}));
        }
        for t in [0u64, 1, 98, 99, 100, 101, 102, 199, 200, 201, u64::MAX - 1, u64::MAX] {
            let ok = a.is_valid(t).is_ok();
            let id = out.next_id();
            out.case(&format!("(C08 {} T {} {} {})", id, iv_sx(a), t, crate::sx::boolean(ok)), "unit:is_valid", || json!({"kind": "is_valid", "iv": iv_sx(a), "t": t}));
        }
        for map in [vec![], vec![(100u64, 50u64)], vec![(99, 1), (101, 2)], vec![(0, 7), (100, 100), (200, 0)], vec![(u64::MAX, 3)]] {
            let mut o = a.clone();
            o.update_with_override(&map.iter().cloned().collect());
            let id = out.next_id();
            let ms = crate::sx::list(map.iter(), |(x, y)| format!("({} {})", x, y));
            out.case(&format!("(C08 {} O {} {} {})", id, iv_sx(a), ms, iv_sx(&o)), "unit:update_with_override", || json!({"kind": "update_with_override", "iv": iv_sx(a)}));
        }
    }
    let n = if thorough { 20000 } else { 3000 };
    for _ in 0..n {
        let pick = |r: &mut Rng| -> Option<NI> { if r.chance(1, 4) { None } else { Some(all[r.below(all.len() as u64) as usize].clone()) } };
        let (l, g) = (pick(r), pick(r));
        let rr = if r.chance(1, 4) { None } else { Some(if r.chance(1, 2) { "reg:1" } else { "reg:2" }) };
        let ov: Option<Vec<(String, Vec<(u64, u64)>)>> = match r.below(4) {
            0 => None,
            1 => Some(vec![]),
            2 => Some(vec![("reg:1".into(), vec![(100, 50), (0, 9)])]),
            _ => Some(vec![("reg:2".into(), vec![(101, 1)]), ("reg:1".into(), vec![(99, 98), (200, 100)])]),
        };
        let ovm: Option<std::collections::HashMap<RId, std::collections::HashMap<u64, u64>>> =
            ov.as_ref().map(|o| o.iter().map(|(k, m)| (RId::new_unchecked(k.clone()), m.iter().cloned().collect())).collect());
        let rid = rr.map(RId::new_unchecked);
        let res = anoncreds::verif::get_requested_non_revoked_interval(rid.as_ref(), l.as_ref(), g.as_ref(), ovm.as_ref());
        let id = out.next_id();
        let line = format!(
            "(C08 {} G {} {} {} {} {})",
            id,
            crate::sx::opt(rr, |x| crate::sx::s(x)),
            crate::sx::opt(l.as_ref(), |x| iv_sx(x)),
            crate::sx::opt(g.as_ref(), |x| iv_sx(x)),
            crate::sx::opt(ov.as_ref(), |o| crate::sx::list(o.iter(), |(k, m)| format!("({} {})", crate::sx::s(k), crate::sx::list(m.iter(), |(x, y)| format!("({} {})", x, y))))),
            crate::sx::opt(res.as_ref(), |x| iv_sx(x))
        );
        out.case(&line, "unit:get_requested_non_revoked_interval", || json!({"kind": "get_requested_non_revoked_interval"}));
    }
}

pub fn run(prop: &str, tier: &str, seed: u64, outdir: &str) {
    let mut out = Out::new(outdir);
    let mut r = Rng::new(seed ^ 0x5EED ^ (prop.bytes().fold(0u64, |a, b| a * 131 + b as u64)));
    let thorough = tier == "thorough";
    if prop == "C08" {
        interval_unit_cases(&mut out, &mut r, thorough);
    }
    let w = World::build(outdir);
    if prop == "C12" {
        crate::c12d::run(&mut out, &mut r, &w, thorough);
    }
    let jobs = match prop {
        "C01" => c01_jobs(&mut r, &w, thorough),
        "C02" => c02_jobs(&mut r, &w, thorough),
        "C03" => c03_jobs(&mut r, &w, thorough),
        "C05" => c05_jobs(&mut r, &w, thorough),
        "C06" => c06_jobs(&mut r, &w, thorough),
        "C08" => c08_jobs(&mut r, &w, thorough),
        _ => c12_jobs(&mut r, &w, thorough),
    };
    let results = crate::par::par_map(&jobs, crate::par::ncpu(), |_, j| run_job(&w, j));
    for (j, res) in jobs.iter().zip(results) {
        match res {
            Some((body, human)) => {
                let id = out.next_id();
                out.case(&format!("({} {} {})", prop, id, body), &j.class, || human);
            }
            // an honest selection the library's prover refuses to serve is an outcome to report, not a case to drop
            None if j.muts.is_empty() && j.craft.is_none() && (j.class.starts_with("honest") || j.class == "two-thresholds-one-attribute") => {
                let id = out.next_id();
                out.case(&format!("({} {} NB {})", prop, id, crate::sx::s(&j.class)), "honest-not-built", || json!({"class": j.class, "built": false}));
            }
            None => out.bump(&format!("not-generated({})", j.class.split(':').next().unwrap_or(""))),
        }
    }
    let _ = std::fs::remove_dir_all(format!("{}/tails", outdir));
    out.finish();
}
