//! C12, parser half: every from-JSON entry point of the library is fed valid documents of the
//! verification world after structure-aware mutation (leaf rewrites, retyping, deletion,
//! duplication, rewrites INSIDE the base64/msgpack proof values of W3C objects) and byte-level
//! mutation (flips, truncation, splices, invalid UTF-8, random bytes), each under
//! `catch_unwind` with the panic location recorded and a wall-clock bound.
//! This is differential TESTING against the trivial specification "Ok or Err, never a panic";
//! it supports the search for a failing input, it is not a proof (DESIGN.md, C12).
//! Case: (C12 id D <type> <mutation kind> <n> <ok|err|panic|slow> <panic site> <input when it panicked>)
use crate::out::Out;
use crate::rng::Rng;
use crate::sx;
use crate::vw::{self, World};
use anoncreds::data_types::{
    cred_def::{CredentialDefinition, CredentialDefinitionPrivate, CredentialKeyCorrectnessProof},
    cred_offer::CredentialOffer,
    cred_request::{CredentialRequest, CredentialRequestMetadata},
    credential::Credential,
    nonce::Nonce,
    pres_request::PresentationRequest,
    presentation::Presentation,
    rev_reg_def::{RevocationRegistryDefinition, RevocationRegistryDefinitionPrivate},
    schema::Schema,
    w3c::{credential::W3CCredential, presentation::W3CPresentation},
};
use anoncreds::types::{CredentialRevocationState, RevocationStatusList};
use anoncreds::{issuer, prover};
use serde_json::{json, Value};
use std::cell::RefCell;
use std::time::Instant;

thread_local! {
    static LAST_PANIC: RefCell<String> = RefCell::new(String::new());
}

fn site_of(file: &str, line: u32) -> String {
    // .../registry/src/index.crates.io-xxxx/openssl-0.10.55/src/bn.rs -> openssl-0.10.55/src/bn.rs
    let short = match file.find("/registry/src/") {
        Some(i) => file[i + 14..].splitn(2, '/').nth(1).unwrap_or(file).to_string(),
        None => match file.find("/repo/") {
            Some(i) => format!("anoncreds/{}", &file[i + 6..]),
            None => file.rsplitn(4, '/').collect::<Vec<_>>().into_iter().rev().collect::<Vec<_>>().join("/"),
        },
    };
    format!("{}:{}", short, line).replace(' ', "_")
}

pub fn install_hook() {
    std::panic::set_hook(Box::new(|info| {
        let s = info.location().map(|l| site_of(l.file(), l.line())).unwrap_or_else(|| "unknown".into());
        LAST_PANIC.with(|p| *p.borrow_mut() = s);
    }));
}

type Parser = fn(&[u8]) -> bool;

// ---- use after parse: a document that parses is handed to the operation that consumes it ----------
// (the verifier for presentations, conversion / validation for credentials); a panic THERE is as much a
// crash on untrusted input as one inside serde. The context is rebuilt per thread from documents.
static USE_DOCS: std::sync::OnceLock<String> = std::sync::OnceLock::new();
struct UseCtx {
    c: vw::BuiltCtx,
    reqs: Vec<PresentationRequest>,
}
thread_local! {
    static USE: RefCell<Option<UseCtx>> = RefCell::new(None);
}
fn with_use<R>(f: impl FnOnce(&UseCtx) -> R) -> Option<R> {
    USE.with(|u| {
        if u.borrow().is_none() {
            let d: Value = serde_json::from_str(USE_DOCS.get()?).ok()?;
            let mut c = vw::BuiltCtx { schemas: Default::default(), cred_defs: Default::default(), reg_defs: Some(Default::default()), lists: Some(vec![]), ovr: None };
            for (id, v) in d["schemas"].as_object()? {
                c.schemas.insert(anoncreds::data_types::schema::SchemaId::new_unchecked(id.clone()), serde_json::from_value(v.clone()).ok()?);
            }
            for (id, v) in d["cred_defs"].as_object()? {
                c.cred_defs.insert(anoncreds::data_types::cred_def::CredentialDefinitionId::new_unchecked(id.clone()), serde_json::from_value(v.clone()).ok()?);
            }
            for (id, v) in d["reg_defs"].as_object()? {
                c.reg_defs.as_mut()?.insert(anoncreds::data_types::rev_reg_def::RevocationRegistryDefinitionId::new_unchecked(id.clone()), serde_json::from_value(v.clone()).ok()?);
            }
            for v in d["lists"].as_array()? {
                c.lists.as_mut()?.push(serde_json::from_value(v.clone()).ok()?);
            }
            let reqs = d["reqs"].as_array()?.iter().filter_map(|v| serde_json::from_value(v.clone()).ok()).collect();
            *u.borrow_mut() = Some(UseCtx { c, reqs });
        }
        let b = u.borrow();
        Some(f(b.as_ref()?))
    })
}
fn p_pres_use(b: &[u8]) -> bool {
    let Ok(p) = serde_json::from_slice::<Presentation>(b) else { return false };
    with_use(|u| {
        for r in u.reqs.iter() {
            let _ = anoncreds::verifier::verify_presentation(&p, r, &u.c.schemas, &u.c.cred_defs, u.c.reg_defs.as_ref(), u.c.lists.clone(), None);
        }
    });
    true
}
fn p_wpres_use(b: &[u8]) -> bool {
    let Ok(p) = serde_json::from_slice::<W3CPresentation>(b) else { return false };
    with_use(|u| {
        for r in u.reqs.iter() {
            let _ = anoncreds::w3c::verifier::verify_presentation(&p, r, &u.c.schemas, &u.c.cred_defs, u.c.reg_defs.as_ref(), u.c.lists.clone(), None);
        }
    });
    true
}
fn p_wcred_use(b: &[u8]) -> bool {
    let Ok(c) = serde_json::from_slice::<W3CCredential>(b) else { return false };
    let _ = anoncreds::w3c::credential_conversion::credential_from_w3c(&c);
    true
}
fn p_cred_use(b: &[u8]) -> bool {
    let Ok(c) = serde_json::from_slice::<Credential>(b) else { return false };
    let _ = anoncreds::w3c::credential_conversion::credential_to_w3c(&c, &"did:web:issuer".try_into().unwrap(), None);
    true
}

fn p<T: serde::de::DeserializeOwned>(b: &[u8]) -> bool {
    serde_json::from_slice::<T>(b).is_ok()
}
fn p_query(b: &[u8]) -> bool {
    // the WQL type is private; it is reached through the restrictions of a presentation request
    let Ok(v) = serde_json::from_slice::<Value>(b) else { return false };
    let doc = json!({"nonce": "1", "name": "n", "version": "1", "requested_attributes": {"a": {"name": "x", "restrictions": v}}, "requested_predicates": {}});
    serde_json::from_value::<PresentationRequest>(doc).is_ok()
}
fn p_link_secret(b: &[u8]) -> bool {
    let Ok(s) = std::str::from_utf8(b) else { return false };
    anoncreds::data_types::link_secret::LinkSecret::try_from(s).is_ok()
}

fn docs(w: &World) -> Vec<(&'static str, Parser, Vec<Vec<u8>>)> {
    let j = |v: &dyn erased::Ser| v.to_vec();
    let c0 = &w.cds[0];
    let c1 = &w.cds[1];
    let offer = issuer::create_credential_offer(c1.schema_id.as_str().try_into().unwrap(), c1.cred_def_id.as_str().try_into().unwrap(), &c1.kcp).unwrap();
    let (req, meta) = prover::create_credential_request(Some("entropy"), None, &c1.cred_def, &w.holders[0], "ls", &offer).unwrap();
    let shapes = crate::vcases::shapes_for_parsers();
    let mut preqs = vec![];
    let mut pres = vec![];
    let mut wpres = vec![];
    for (spec, picks, self_att) in shapes.iter() {
        if let Some(r) = spec.build() {
            preqs.push(serde_json::to_vec(&r).unwrap());
            if let Some((pp, _, _)) = vw::make_legacy(w, &r, picks, self_att, 0) {
                pres.push(serde_json::to_vec(&pp).unwrap());
            }
            if self_att.is_empty() {
                if let Some((pp, _, _)) = vw::make_w3c(w, &r, picks, 0) {
                    wpres.push(serde_json::to_vec(&pp).unwrap());
                }
            }
        }
    }
    // documents for the use-after-parse context
    let full = vw::build_ctx(w, &vw::VCtx::full(w));
    let use_docs = json!({
        "schemas": full.schemas.iter().map(|(k, v)| (k.to_string(), serde_json::to_value(v).unwrap())).collect::<serde_json::Map<_, _>>(),
        "cred_defs": full.cred_defs.iter().map(|(k, v)| (k.to_string(), serde_json::to_value(v).unwrap())).collect::<serde_json::Map<_, _>>(),
        "reg_defs": full.reg_defs.iter().flatten().map(|(k, v)| (k.to_string(), serde_json::to_value(v).unwrap())).collect::<serde_json::Map<_, _>>(),
        "lists": full.lists.iter().flatten().map(|l| serde_json::to_value(l).unwrap()).collect::<Vec<_>>(),
        "reqs": preqs.iter().map(|b| serde_json::from_slice::<Value>(b).unwrap()).collect::<Vec<_>>(),
    });
    let _ = USE_DOCS.set(use_docs.to_string());
    let ls: String = w.holders[0].try_clone().unwrap().try_into().unwrap();
    let queries: Vec<Vec<u8>> = vec![
        json!({"schema_id": "x"}), json!({"$and": [{"attr::name::value": "Alex"}, {"$not": {"cred_def_id": {"$in": ["a", "b"]}}}]}),
        json!([{"issuer_did": "d"}, {"$or": [{"schema_name": {"$like": "g%"}}, {"schema_version": {"$neq": "1"}}]}]),
        json!({"attr::age::marker": "1", "schema_issuer_did": {"$gt": "1"}, "x": {"$lte": "2"}}),
    ].into_iter().map(|q| serde_json::to_vec(&q).unwrap()).collect();
    vec![
        ("Schema", p::<Schema> as Parser, vec![j(&c0.schema), j(&w.cds[2].schema)]),
        ("CredentialDefinition", p::<CredentialDefinition>, vec![j(&c0.cred_def), j(&c1.cred_def)]),
        ("CredentialDefinitionPrivate", p::<CredentialDefinitionPrivate>, vec![j(&c1.cred_def_priv)]),
        ("CredentialKeyCorrectnessProof", p::<CredentialKeyCorrectnessProof>, vec![j(&c0.kcp)]),
        ("CredentialOffer", p::<CredentialOffer>, vec![j(&offer)]),
        ("CredentialRequest", p::<CredentialRequest>, vec![j(&req)]),
        ("CredentialRequestMetadata", p::<CredentialRequestMetadata>, vec![j(&meta)]),
        ("Credential", p::<Credential>, vec![j(&w.creds[0].legacy), j(&w.creds[1].legacy), j(&w.creds[2].legacy)]),
        ("W3CCredential", p::<W3CCredential>, vec![j(&w.creds[0].w3c), j(&w.creds[1].w3c)]),
        ("RevocationRegistryDefinition", p::<RevocationRegistryDefinition>, vec![j(&w.reg.def)]),
        ("RevocationRegistryDefinitionPrivate", p::<RevocationRegistryDefinitionPrivate>, vec![j(&w.reg.def_priv)]),
        ("RevocationStatusList", p::<RevocationStatusList>, w.lists.iter().map(|l| j(&l.list)).collect()),
        ("CredentialRevocationState", p::<CredentialRevocationState>, w.states.values().take(2).map(|s| j(s)).collect()),
        ("PresentationRequest", p::<PresentationRequest>, preqs.clone()),
        ("Presentation", p::<Presentation>, pres.clone()),
        ("W3CPresentation", p::<W3CPresentation>, wpres.clone()),
        ("Presentation+verify", p_pres_use, pres.clone()),
        ("W3CPresentation+verify", p_wpres_use, wpres.clone()),
        ("W3CCredential+convert", p_wcred_use, vec![j(&w.creds[0].w3c), j(&w.creds[1].w3c)]),
        ("Credential+convert", p_cred_use, vec![j(&w.creds[0].legacy), j(&w.creds[1].legacy)]),
        ("Nonce", p::<Nonce>, vec![b"\"1234567890\"".to_vec(), b"123".to_vec()]),
        ("Query", p_query, queries),
        ("LinkSecret", p_link_secret, vec![ls.into_bytes()]),
    ]
}

mod erased {
    pub trait Ser {
        fn to_vec(&self) -> Vec<u8>;
    }
    impl<T: serde::Serialize> Ser for T {
        fn to_vec(&self) -> Vec<u8> {
            serde_json::to_vec(self).unwrap()
        }
    }
}

// ---- structure-aware mutation ----------------------------------------------------------

fn count_nodes(v: &Value) -> usize {
    1 + match v {
        Value::Array(a) => a.iter().map(count_nodes).sum(),
        Value::Object(o) => o.values().map(count_nodes).sum(),
        _ => 0,
    }
}
fn node_mut<'a>(v: &'a mut Value, k: &mut usize) -> Option<&'a mut Value> {
    if *k == 0 {
        return Some(v);
    }
    *k -= 1;
    match v {
        Value::Array(a) => {
            for x in a.iter_mut() {
                if let Some(r) = node_mut(x, k) {
                    return Some(r);
                }
            }
            None
        }
        Value::Object(o) => {
            for (_, x) in o.iter_mut() {
                if let Some(r) = node_mut(x, k) {
                    return Some(r);
                }
            }
            None
        }
        _ => None,
    }
}

fn mutate_string(s: &str, r: &mut Rng, depth: u32) -> (String, &'static str) {
    let chars: Vec<char> = s.chars().collect();
    let rest: String = chars.iter().skip(1).collect();
    // a multibase value: rewrite inside the msgpack payload
    if depth == 0 && s.starts_with('u') && s.len() > 40 && r.chance(2, 3) {
        use base64::Engine;
        let eng = base64::engine::general_purpose::URL_SAFE_NO_PAD;
        if let Ok(bytes) = eng.decode(&s[1..]) {
            if r.chance(1, 3) {
                let (b2, _) = mutate_bytes(&bytes, r);
                return (format!("u{}", eng.encode(b2)), "msgpack-bytes");
            }
            if let Ok(mut inner) = rmp_serde::from_slice::<Value>(&bytes) {
                let _ = mutate_value(&mut inner, r, 1);
                if let Ok(b2) = rmp_serde::to_vec_named(&inner) {
                    return (format!("u{}", eng.encode(b2)), "msgpack-structure");
                }
            }
        }
    }
    match r.below(16) {
        0 => (String::new(), "string-empty"),
        1 => (format!("é{}", rest), "string-multibyte-first"),
        2 => (format!("{}\u{0}{}", chars.iter().take(chars.len() / 2).collect::<String>(), chars.iter().skip(chars.len() / 2).collect::<String>()), "string-interior-nul"),
        3 => (format!("zz{}", rest), "string-non-hex-non-digit"),
        4 => (format!("-{}", s), "string-minus"),
        5 => (format!("+{}", s), "string-plus"),
        6 => (format!(" {}", s), "string-leading-space"),
        7 => ("9".repeat(1 + r.below(6000) as usize), "string-long-decimal"),
        8 => ("٣".to_string() + &rest, "string-unicode-digit"),
        9 => (chars.iter().take(chars.len() / 2).collect(), "string-truncated"),
        10 => (format!("{}{}", s, s), "string-doubled"),
        11 => (s.to_uppercase(), "string-uppercase"),
        12 => ("0".into(), "string-zero"),
        13 => (format!("{} ", s), "string-trailing-space"),
        14 => {
            // one character replaced at a random position by a multi-byte one
            let mut c = chars.clone();
            if !c.is_empty() {
                let i = r.below(c.len() as u64) as usize;
                c[i] = *r.pick(&['€', '\u{10348}', 'ß', '\u{7f}', '"', '\\', '/']);
            }
            (c.into_iter().collect(), "string-char-replaced")
        }
        _ => ("1e5".into(), "string-exponent"),
    }
}

fn mutate_value(root: &mut Value, r: &mut Rng, depth: u32) -> &'static str {
    let n = count_nodes(root);
    let mut k = r.below(n as u64) as usize;
    // prefer leaves two times out of three
    for _ in 0..3 {
        let mut kk = k;
        if let Some(x) = node_mut(root, &mut kk) {
            if !x.is_array() && !x.is_object() {
                break;
            }
        }
        k = r.below(n as u64) as usize;
    }
    let Some(x) = node_mut(root, &mut k) else { return "none" };
    match x {
        Value::String(s) if r.chance(4, 5) => {
            let (s2, kind) = mutate_string(s, r, depth);
            *x = Value::String(s2);
            kind
        }
        Value::Number(_) if r.chance(4, 5) => {
            let (v, kind): (Value, &'static str) = match r.below(8) {
                0 => (json!(0), "number-zero"),
                1 => (json!(-1), "number-negative"),
                2 => (json!(u64::MAX), "number-u64-max"),
                3 => (json!(i64::MIN), "number-i64-min"),
                4 => (json!(1.0e308), "number-float-huge"),
                5 => (json!(4294967296u64), "number-2^32"),
                6 => (json!(0.5), "number-fraction"),
                _ => (json!(2147483648u64), "number-2^31"),
            };
            *x = v;
            kind
        }
        Value::Array(a) if !a.is_empty() && r.chance(3, 4) => match r.below(4) {
            0 => {
                a.clear();
                "array-cleared"
            }
            1 => {
                let i = r.below(a.len() as u64) as usize;
                a.remove(i);
                "array-element-removed"
            }
            2 => {
                let i = r.below(a.len() as u64) as usize;
                let e = a[i].clone();
                a.push(e);
                "array-element-duplicated"
            }
            _ => {
                a.reverse();
                "array-reversed"
            }
        },
        Value::Object(o) if !o.is_empty() && r.chance(3, 4) => {
            let keys: Vec<String> = o.keys().cloned().collect();
            let key = r.pick(&keys).clone();
            match r.below(4) {
                0 => {
                    o.remove(&key);
                    "object-key-removed"
                }
                1 => {
                    let v = o.remove(&key).unwrap();
                    o.insert(format!("{}x", key), v);
                    "object-key-renamed"
                }
                2 => {
                    let v = o[&key].clone();
                    o.insert(key.to_uppercase(), v);
                    "object-key-duplicated-uppercase"
                }
                _ => {
                    o.insert("extra".into(), json!({"a": [1, "2", null]}));
                    "object-key-added"
                }
            }
        }
        _ => {
            let (v, kind): (Value, &'static str) = match r.below(8) {
                0 => (Value::Null, "retype-null"),
                1 => (json!([]), "retype-empty-array"),
                2 => (json!({}), "retype-empty-object"),
                3 => (json!("x"), "retype-string"),
                4 => (json!(7), "retype-number"),
                5 => (json!(true), "retype-bool"),
                6 => (json!([x.clone()]), "retype-wrapped-in-array"),
                _ => (json!(x.to_string()), "retype-stringified"),
            };
            *x = v;
            kind
        }
    }
}

fn mutate_bytes(b: &[u8], r: &mut Rng) -> (Vec<u8>, &'static str) {
    let mut v = b.to_vec();
    if v.is_empty() {
        return (vec![r.next() as u8], "bytes-one-random");
    }
    match r.below(7) {
        0 => {
            let i = r.below(v.len() as u64) as usize;
            v[i] ^= 1 << r.below(8);
            (v, "bytes-bit-flip")
        }
        1 => {
            let i = r.below(v.len() as u64) as usize;
            v.truncate(i);
            (v, "bytes-truncated")
        }
        2 => {
            let i = r.below(v.len() as u64) as usize;
            let ins: Vec<u8> = (0..1 + r.below(6)).map(|_| r.next() as u8).collect();
            v.splice(i..i, ins);
            (v, "bytes-inserted")
        }
        3 => {
            let i = r.below(v.len() as u64) as usize;
            v[i] = *r.pick(&[0u8, 0xff, 0xc3, 0x80, b'"', b'\\', b'{', b'[', b'-', b'e']);
            (v, "bytes-special-byte")
        }
        4 => {
            let n = 1 + r.below(64) as usize;
            ((0..n).map(|_| r.next() as u8).collect(), "bytes-all-random")
        }
        5 => {
            let i = r.below(v.len() as u64) as usize;
            let j = i + r.below((v.len() - i) as u64) as usize;
            v.drain(i..j);
            (v, "bytes-range-removed")
        }
        _ => {
            let n = 1 + r.below(3000) as usize;
            let mut o = vec![b'['; n];
            o.extend(std::iter::repeat(b']').take(n));
            (o, "bytes-deep-nesting")
        }
    }
}

pub fn mutant(valid: &[u8], r: &mut Rng) -> (Vec<u8>, String) {
    if r.chance(1, 5) {
        let (b, k) = mutate_bytes(valid, r);
        return (b, k.to_string());
    }
    match serde_json::from_slice::<Value>(valid) {
        Ok(mut v) => {
            let mut kinds = vec![];
            let n = 1 + if r.chance(1, 4) { r.below(3) } else { 0 };
            for _ in 0..n {
                kinds.push(mutate_value(&mut v, r, 0));
            }
            (serde_json::to_vec(&v).unwrap(), kinds.join("+"))
        }
        Err(_) => {
            let (b, k) = mutate_bytes(valid, r);
            (b, k.to_string())
        }
    }
}

/// every node down to depth `maxd`, each replaced in turn by every small value, emptied, or removed
fn sweep(valid: &[u8], maxd: usize) -> Vec<(Vec<u8>, String)> {
    let Ok(root) = serde_json::from_slice::<Value>(valid) else { return vec![] };
    fn paths(v: &Value, d: usize, maxd: usize, cur: &mut Vec<String>, out: &mut Vec<Vec<String>>) {
        if d >= maxd {
            return;
        }
        match v {
            Value::Object(o) => {
                for (k, x) in o {
                    cur.push(k.clone());
                    out.push(cur.clone());
                    paths(x, d + 1, maxd, cur, out);
                    cur.pop();
                }
            }
            Value::Array(a) => {
                for (i, x) in a.iter().enumerate().take(2) {
                    cur.push(i.to_string());
                    out.push(cur.clone());
                    paths(x, d + 1, maxd, cur, out);
                    cur.pop();
                }
            }
            _ => {}
        }
    }
    fn at<'a>(v: &'a mut Value, p: &[String]) -> Option<&'a mut Value> {
        let mut x = v;
        for k in p {
            x = match x {
                Value::Object(o) => o.get_mut(k)?,
                Value::Array(a) => a.get_mut(k.parse::<usize>().ok()?)?,
                _ => return None,
            };
        }
        Some(x)
    }
    let mut ps = vec![];
    paths(&root, 0, maxd, &mut vec![], &mut ps);
    let repl: Vec<(&str, Value)> = vec![
        ("null", Value::Null), ("empty-array", json!([])), ("empty-object", json!({})), ("array-of-empty-object", json!([{}])), ("array-of-null", json!([null])),
        ("string", json!("x")), ("empty-string", json!("")), ("number", json!(7)), ("negative", json!(-1)), ("bool", json!(true)),
        // long text in which every even / every odd byte offset from 15 on falls inside a two-byte character
        ("long-multibyte-odd", json!(format!("{}{}", "x".repeat(15), "é".repeat(300)))), ("long-multibyte-even", json!(format!("{}{}", "x".repeat(16), "é".repeat(300)))),
        ("long-four-byte", json!(format!("{}{}", "x".repeat(13), "\u{10348}".repeat(150)))),
        // text around the separators identifiers and URIs are split at
        ("colon-first", json!(":credential-1")), ("colon-only", json!(":")), ("colon-last", json!("x:")), ("two-colons", json!("::")), ("slash", json!("/")), ("hash", json!("#")),
        ("digit-scheme", json!("1a:b")), ("space", json!(" ")), ("legacy-parts-empty", json!(":2::")), ("legacy-creddef-empty-parts", json!(":3:CL::")),
    ];
    let mut out = vec![];
    for p in ps.iter() {
        for (name, v) in repl.iter() {
            let mut d = root.clone();
            if let Some(x) = at(&mut d, p) {
                *x = v.clone();
                out.push((serde_json::to_vec(&d).unwrap(), format!("sweep-{}", name)));
            }
        }
        // members emptied one level down, and the key removed
        let mut d = root.clone();
        if let Some(x) = at(&mut d, p) {
            let changed = match x {
                Value::Array(a) if !a.is_empty() => {
                    for e in a.iter_mut() {
                        *e = match e { Value::Object(_) => json!({}), Value::Array(_) => json!([]), _ => Value::Null };
                    }
                    true
                }
                Value::Object(o) if !o.is_empty() => {
                    for (_, e) in o.iter_mut() {
                        *e = Value::Null;
                    }
                    true
                }
                _ => false,
            };
            if changed {
                out.push((serde_json::to_vec(&d).unwrap(), "sweep-members-emptied".to_string()));
            }
        }
        if let Some((last, parent)) = p.split_last() {
            let mut d = root.clone();
            if let Some(Value::Object(o)) = at(&mut d, parent) {
                o.remove(last);
                out.push((serde_json::to_vec(&d).unwrap(), "sweep-key-removed".to_string()));
            }
        }
    }
    // members the library's own documents leave out: an `id` added to every object (root included) down to the depth swept
    let mut objs: Vec<Vec<String>> = vec![vec![]];
    objs.extend(ps.iter().cloned());
    for p in objs.iter() {
        for v in [json!(":credential-1"), json!(""), json!("x"), json!("a:b"), json!(7), Value::Null] {
            let mut d = root.clone();
            if let Some(Value::Object(o)) = at(&mut d, p) {
                if !o.contains_key("id") {
                    o.insert("id".to_string(), v);
                    out.push((serde_json::to_vec(&d).unwrap(), "sweep-id-added".to_string()));
                }
            }
        }
    }
    out
}

/// hand-written edge forms of restriction queries (run in addition to the mutants)
fn query_edges() -> Vec<Vec<u8>> {
    vec![
        json!([]), json!({}), json!([{}]), json!([{}, {}]), json!([null]), json!([{"schema_id": null}]), json!([{"schema_id": null, "cred_def_id": null}]),
        json!([{"schema_id": null}, {"cred_def_id": "x"}]), json!({"schema_id": null}), json!({"$or": []}), json!({"$and": []}), json!({"$or": [{}]}), json!({"$and": [{}, {}]}),
        json!({"$not": {}}), json!({"$not": []}), json!({"$not": [{}]}), json!({"a": {"$in": []}}), json!({"a": {"$in": [null]}}), json!({"a": {}}), json!({"a": {"$neq": null}}),
        json!({"$or": null}), json!({"$and": {}}), json!([[{}]]), json!([[], {}]), json!({"": ""}), json!([{"": null}]), json!({"$exist": []}), json!({"$exist": [null]}), json!({"$not": {"$not": {"$not": {}}}}),
    ].into_iter().map(|q| serde_json::to_vec(&q).unwrap()).collect()
}

pub fn run_one(parse: Parser, input: &[u8]) -> (&'static str, String) {
    LAST_PANIC.with(|p| p.borrow_mut().clear());
    // CPU time of this thread, not wall-clock time: the machine may be shared, and "slow" is about the work an input
    // causes (a bound of 5 s of computation for one document)
    fn thread_cpu() -> f64 {
        let mut ts = libc::timespec { tv_sec: 0, tv_nsec: 0 };
        unsafe { libc::clock_gettime(libc::CLOCK_THREAD_CPUTIME_ID, &mut ts) };
        ts.tv_sec as f64 + ts.tv_nsec as f64 * 1e-9
    }
    let t = Instant::now();
    let c0 = thread_cpu();
    let res = std::panic::catch_unwind(|| parse(input));
    let slow = thread_cpu() - c0 > 5.0;
    let _ = t;
    match res {
        Err(_) => ("panic", LAST_PANIC.with(|p| p.borrow().clone())),
        Ok(_) if slow => ("slow", String::new()),
        Ok(true) => ("ok", String::new()),
        Ok(false) => ("err", String::new()),
    }
}

pub fn run(out: &mut Out, r: &mut Rng, w: &World, thorough: bool) {
    install_hook();
    let per_type: u64 = if thorough { 12000 } else { 500 };
    let all = docs(w);
    struct J {
        ty: &'static str,
        parse: Parser,
        input: Vec<u8>,
        kind: String,
        n: u64,
    }
    let mut jobs = vec![];
    for (ty, parse, valids) in all.iter() {
        if valids.is_empty() {
            out.note(format!("parser half: no valid document for {}", ty));
            continue;
        }
        for v in valids {
            jobs.push(J { ty, parse: *parse, input: v.clone(), kind: "valid".into(), n: 0 });
        }
        for n in 0..per_type {
            let mut rr = r.fork();
            let (input, kind) = mutant(&valids[(n as usize) % valids.len()], &mut rr);
            jobs.push(J { ty, parse: *parse, input, kind, n: n + 1 });
        }
        // systematic: every node near the root of (up to three of) the valid documents, every small replacement
        let depth = if ty.contains("Presentation") || ty.contains("W3C") { 4 } else { 3 };
        let mut n = per_type;
        for v in valids.iter().take(if thorough { 6 } else { 3 }) {
            for (input, kind) in sweep(v, depth) {
                n += 1;
                jobs.push(J { ty, parse: *parse, input, kind, n });
            }
        }
        if *ty == "Query" {
            for input in query_edges() {
                n += 1;
                jobs.push(J { ty, parse: *parse, input, kind: "edge-form".into(), n });
            }
        }
    }
    let results = crate::par::par_map(&jobs, crate::par::ncpu(), |_, j| {
        install_hook_thread();
        run_one(j.parse, &j.input)
    });
    for (j, (o, site)) in jobs.iter().zip(results) {
        if j.kind == "valid" && o != "ok" {
            out.note(format!("parser half: a valid {} document did not parse ({})", j.ty, o));
        }
        let id = out.next_id();
        let input = if o == "panic" || o == "slow" { sx::b(&j.input) } else { "x".into() };
        let class = format!("parser:{}:{}", j.ty, o);
        out.case(
            &format!("(C12 {} D {} {} {} {} {} {})", id, sx::s(j.ty), sx::s(&j.kind), j.n, o, sx::s(&site), input),
            &class,
            || json!({"parser": j.ty, "mutation": j.kind, "outcome": o, "site": site}),
        );
        out.bump(&format!("parser-mutation:{}", j.kind.split('+').next().unwrap_or("")));
    }
    // restore the silent hook for the verifier half
    std::panic::set_hook(Box::new(|_| {}));
}

fn install_hook_thread() {}
