//! C09: revocation status list as a state machine of issue/revoke history.
use crate::out::Out;
use crate::rng::Rng;
use crate::sx;
use crate::world::{self, Classes, CredDefSetup, RegSetup};
use anoncreds::types::{CredentialRevocationConfig, MakeCredentialValues, RevocationStatusList};
use anoncreds::{issuer, prover};
use serde_json::json;
use std::collections::BTreeSet;

#[derive(Clone, Debug)]
enum Op {
    Upd(Option<Vec<u32>>, Option<Vec<u32>>, Option<u64>),
    Touch(u64),
    Issue(u32),
    Hop, // JSON serialise / deserialise the current list (no model-visible effect)
}

struct Ctx<'a> {
    cd: &'a CredDefSetup,
    offer: anoncreds::types::CredentialOffer,
    req: anoncreds::types::CredentialRequest,
}

struct Job {
    class: &'static str,
    reg: usize,
    by_default: bool,
    t0: Option<u64>,
    ops: Vec<Op>,
}

fn run_history(cx: &Ctx, reg: &RegSetup, by_default: bool, t0: Option<u64>, ops: &[Op]) -> String {
    let mut classes: Classes<anoncreds::cl::Accumulator> = Classes::new();
    let mut list: RevocationStatusList = world::initial_list(cx.cd, reg, by_default, t0);
    let bits_s = |l: &RevocationStatusList| world::list_bits(l).iter().map(|b| if *b { '1' } else { '0' }).collect::<String>();
    let mut steps: Vec<String> = vec![];
    let c0 = classes.class_of(world::list_accum(&list).unwrap());
    let init = format!("(ok {} {} {} t)", sx::s(&bits_s(&list)), sx::opt(world::list_ts(&list), |t| sx::n(t)), c0);
    for op in ops {
        match op {
            Op::Upd(iss, rev, t) => {
                let before = serde_json::to_value(&list).unwrap();
                let r = std::panic::catch_unwind(std::panic::AssertUnwindSafe(|| {
                    issuer::update_revocation_status_list(
                        &cx.cd.cred_def,
                        &reg.def,
                        &reg.def_priv,
                        &list,
                        iss.clone().map(|v| v.into_iter().collect::<BTreeSet<u32>>()),
                        rev.clone().map(|v| v.into_iter().collect::<BTreeSet<u32>>()),
                        *t,
                    )
                }));
                let unchanged = serde_json::to_value(&list).unwrap() == before;
                let opx = format!(
                    "(u {} {} {})",
                    sx::list(iss.clone().unwrap_or_default().iter(), |i| sx::n(i)),
                    sx::list(rev.clone().unwrap_or_default().iter(), |i| sx::n(i)),
                    sx::opt(*t, |x| sx::n(x))
                );
                match r {
                    Ok(Ok(nl)) => {
                        let c = classes.class_of(world::list_accum(&nl).unwrap());
                        steps.push(format!("({} (ok {} {} {} {}))", opx, sx::s(&bits_s(&nl)), sx::opt(world::list_ts(&nl), |t| sx::n(t)), c, sx::boolean(unchanged)));
                        list = nl;
                    }
                    Ok(Err(_)) => steps.push(format!("({} (err))", opx)),
                    Err(_) => steps.push(format!("({} (panic))", opx)),
                }
            }
            Op::Touch(t) => {
                let before = serde_json::to_value(&list).unwrap();
                let nl = issuer::update_revocation_status_list_timestamp_only(*t, &list);
                let unchanged = serde_json::to_value(&list).unwrap() == before;
                let c = classes.class_of(world::list_accum(&nl).unwrap());
                steps.push(format!("((t {}) (ok {} {} {} {}))", t, sx::s(&bits_s(&nl)), sx::opt(world::list_ts(&nl), |t| sx::n(t)), c, sx::boolean(unchanged)));
                list = nl;
            }
            Op::Hop => {
                let text = serde_json::to_string(&list).unwrap();
                let back: RevocationStatusList = serde_json::from_str(&text).unwrap();
                let same = world::list_accum(&back) == world::list_accum(&list) && world::list_bits(&back) == world::list_bits(&list) && world::list_ts(&back) == world::list_ts(&list);
                let c = classes.class_of(world::list_accum(&back).unwrap());
                steps.push(format!("((h) (ok {} {} {} {}))", sx::s(&bits_s(&back)), sx::opt(world::list_ts(&back), |t| sx::n(t)), c, sx::boolean(same)));
                list = back;
            }
            Op::Issue(idx) => {
                let mut values = MakeCredentialValues::default();
                values.add_raw("name", "Alice").unwrap();
                values.add_raw("age", "30").unwrap();
                let r = std::panic::catch_unwind(std::panic::AssertUnwindSafe(|| {
                    issuer::create_credential(
                        &cx.cd.cred_def,
                        &cx.cd.cred_def_priv,
                        &cx.offer,
                        &cx.req,
                        values.into(),
                        Some(CredentialRevocationConfig { reg_def: &reg.def, reg_def_private: &reg.def_priv, status_list: &list, registry_idx: *idx }),
                    )
                }));
                match r {
                    Err(_) => steps.push(format!("((i {}) (panic))", idx)),
                    Ok(Ok(cred)) => {
                        let v = serde_json::to_value(&cred).unwrap();
                        let acc: anoncreds::cl::Accumulator = serde_json::from_value(v["rev_reg"]["accum"].clone()).unwrap();
                        let c = classes.class_of(acc);
                        steps.push(format!("((i {}) (ok {}))", idx, c));
                    }
                    Ok(Err(_)) => steps.push(format!("((i {}) (err))", idx)),
                }
                // the same issue in W3C form: the accumulator embedded in the credential's signature proof
                let r = std::panic::catch_unwind(std::panic::AssertUnwindSafe(|| {
                    let subject: anoncreds::data_types::w3c::credential_attributes::CredentialSubject = serde_json::from_value(json!({"name": "Alice", "age": 30})).unwrap();
                    anoncreds::w3c::issuer::create_credential(
                        &cx.cd.cred_def,
                        &cx.cd.cred_def_priv,
                        &cx.offer,
                        &cx.req,
                        subject,
                        Some(CredentialRevocationConfig { reg_def: &reg.def, reg_def_private: &reg.def_priv, status_list: &list, registry_idx: *idx }),
                        None,
                    )
                }));
                match r {
                    Err(_) => steps.push(format!("((i {}) (panic))", idx)),
                    Ok(Ok(cred)) => match cred.get_credential_signature_proof().ok().and_then(|p| p.rev_reg.clone()) {
                        Some(rr) => {
                            let acc: anoncreds::cl::Accumulator = serde_json::from_value(serde_json::to_value(&rr).unwrap()["accum"].clone()).unwrap();
                            let c = classes.class_of(acc);
                            steps.push(format!("((i {}) (ok {}))", idx, c));
                        }
                        None => steps.push(format!("((i {}) (err))", idx)),
                    },
                    Ok(Err(_)) => steps.push(format!("((i {}) (err))", idx)),
                }
            }
        }
    }
    format!("H {} {} {} {} {})", reg.n, sx::boolean(by_default), sx::opt(t0, |t| sx::n(t)), init, sx::l(&steps))
}

fn subsets(universe: &[u32]) -> Vec<Vec<u32>> {
    let mut res = vec![];
    for m in 0..(1u32 << universe.len()) {
        res.push(universe.iter().enumerate().filter(|(i, _)| m & (1 << i) != 0).map(|(_, x)| *x).collect());
    }
    res
}

fn rand_set(r: &mut Rng, n: u32) -> Option<Vec<u32>> {
    match r.below(6) {
        0 => None,
        1 => Some(vec![]),
        _ => {
            let k = r.below(4) + 1;
            let mut v: Vec<u32> = (0..k)
                .map(|_| if r.chance(1, 8) { n + r.below(3) as u32 } else if r.chance(1, 30) { u32::MAX - r.below(2) as u32 } else { r.below(n as u64) as u32 })
                .collect();
            if r.chance(1, 3) {
                v.sort();
            }
            Some(v)
        }
    }
}

pub fn run(tier: &str, seed: u64, outdir: &str) {
    let mut out = Out::new(outdir);
    let mut r = Rng::new(seed ^ 0xC09);
    let thorough = tier == "thorough";
    let cd = world::make_cred_def(
        "DXoTtQJNtXtiwWaZAK3rB1:2:example:1.0", "example", "1.0", "DXoTtQJNtXtiwWaZAK3rB1", &["name", "age"],
        "DXoTtQJNtXtiwWaZAK3rB1:3:CL:98153:default", "DXoTtQJNtXtiwWaZAK3rB1", true,
    );
    let offer = issuer::create_credential_offer(cd.schema_id.as_str().try_into().unwrap(), cd.cred_def_id.as_str().try_into().unwrap(), &cd.kcp).unwrap();
    let ls = prover::create_link_secret().unwrap();
    let (req, _m) = prover::create_credential_request(Some("entropy"), None, &cd.cred_def, &ls, "ls", &offer).unwrap();
    let cx = Ctx { cd: &cd, offer, req };
    let tails = format!("{}/tails", outdir);
    let regs: Vec<RegSetup> = [3u32, 5, 8, 40]
        .iter()
        .map(|n| world::make_registry(&cd, &format!("DXoTtQJNtXtiwWaZAK3rB1:4:DXoTtQJNtXtiwWaZAK3rB1:3:CL:98153:default:CL_ACCUM:r{}", n), &format!("r{}", n), *n, &tails))
        .collect();

    let mut jobs: Vec<Job> = vec![];
    // --- exhaustive single updates on a registry of size 3 from several base states (indices 0..=3; 3 is out of range)
    let uni = [0u32, 1, 2, 3];
    let bases: Vec<Vec<Op>> = vec![vec![], vec![Op::Upd(None, Some(vec![1]), None)], vec![Op::Upd(Some(vec![0, 2]), Some(vec![0, 2]), Some(5))]];
    for by_default in [true, false] {
        for base in &bases {
            for iss in subsets(&uni) {
                for rev in subsets(&uni) {
                    if !thorough && (iss.len() + rev.len()) > 4 {
                        continue;
                    }
                    let mut ops = base.clone();
                    ops.push(Op::Upd(Some(iss.clone()), Some(rev.clone()), None));
                    jobs.push(Job { class: "exhaustive:n3-single", reg: 0, by_default, t0: Some(1), ops });
                }
            }
        }
    }
    // --- exhaustive pairs of updates over single-index sets (path independence by construction of many equal end states)
    let singles: Vec<Option<Vec<u32>>> = vec![None, Some(vec![0]), Some(vec![1]), Some(vec![2]), Some(vec![1, 2])];
    for by_default in [true, false] {
        for a in &singles {
            for b in &singles {
                for c in &singles {
                    for d in &singles {
                        let ops = vec![Op::Upd(a.clone(), b.clone(), None), Op::Hop, Op::Upd(c.clone(), d.clone(), Some(9)), Op::Issue(1), Op::Issue(2)];
                        jobs.push(Job { class: "exhaustive:n3-pairs", reg: 0, by_default, t0: None, ops });
                    }
                }
            }
        }
    }
    // --- random longer histories
    let nrand = if thorough { 4000 } else { 500 };
    for k in 0..nrand {
        let reg = &regs[1 + (k % 3) as usize];
        let by_default = r.chance(1, 2);
        let len = 2 + r.below(if thorough { 14 } else { 8 });
        let mut ops = vec![];
        for _ in 0..len {
            ops.push(match r.below(10) {
                0 => Op::Touch(r.below(1000)),
                1 => Op::Hop,
                2 | 3 => Op::Issue(if r.chance(1, 6) { *r.pick(&[0u32, reg.n, reg.n + 1]) } else { 1 + r.below(reg.n as u64 - 1) as u32 }),
                _ => Op::Upd(rand_set(&mut r, reg.n), rand_set(&mut r, reg.n), if r.chance(1, 2) { Some(r.below(1000)) } else { None }),
            });
        }
        let t0 = if r.chance(1, 2) { Some(r.below(100)) } else { None };
        jobs.push(Job { class: "random", reg: 1 + (k % 3) as usize, by_default, t0, ops });
    }
    let lines = crate::par::par_map(&jobs, crate::par::ncpu(), |_, j| run_history(&cx, &regs[j.reg], j.by_default, j.t0, &j.ops));
    for (j, body) in jobs.iter().zip(lines) {
        let id = out.next_id();
        let line = format!("(C09 {} {}", id, body);
        let (n, bd, ops_s) = (regs[j.reg].n, j.by_default, format!("{:?}", j.ops));
        out.case(&line, j.class, || json!({"kind": "history", "n": n, "by_default": bd, "ops": ops_s}));
    }
    let _ = std::fs::remove_dir_all(&tails);
    out.finish();
}
