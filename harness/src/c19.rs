//! C19: tails files — content addressing, read-back, atomic publication under injected faults.
use crate::out::Out;
use crate::rng::Rng;
use crate::sx;
use crate::world;
use anoncreds::cl::{RevocationTailsAccessor, RevocationTailsGenerator};
use anoncreds::tails::{TailsFileReader, TailsFileWriter, TailsWriter};
use anoncreds::verif::failpoint::{self, Mode};
use serde_json::json;

#[derive(Debug)]
struct Capture {
    json: Option<String>,
}
impl TailsWriter for Capture {
    fn write(&mut self, generator: &mut RevocationTailsGenerator) -> Result<(String, String), anoncreds::Error> {
        self.json = Some(serde_json::to_string(generator).unwrap());
        Ok(("captured".into(), "captured".into()))
    }
}

fn generated_tails(gen_json: &str) -> Vec<Vec<u8>> {
    let mut g: RevocationTailsGenerator = serde_json::from_str(gen_json).unwrap();
    let mut v = vec![];
    while let Some(t) = g.try_next().unwrap() {
        v.push(t.to_bytes().unwrap());
    }
    v
}

fn is_tmp_name(n: &str) -> bool {
    n.len() == 24 && n.ends_with(".tmp") && n[..20].bytes().all(|b| b.is_ascii_digit())
}

fn listing(dir: &str) -> String {
    let mut entries: Vec<(String, Vec<u8>)> = std::fs::read_dir(dir)
        .unwrap()
        .map(|e| {
            let e = e.unwrap();
            let name = e.file_name().to_string_lossy().into_owned();
            let content = std::fs::read(e.path()).unwrap_or_default();
            (if is_tmp_name(&name) { "TMP".to_string() } else { name }, content)
        })
        .collect();
    entries.sort();
    sx::list(entries.iter(), |(n, c)| format!("({} {})", sx::s(n), sx::b(c)))
}

/// child mode: `avh C19-child <gen.json file> <dir> <k>` — write with an abort armed at hit k
pub fn child(args: &[String]) {
    let gen_json = std::fs::read_to_string(&args[0]).unwrap();
    let dir = args[1].clone();
    let k: u64 = args[2].parse().unwrap();
    let mut g: RevocationTailsGenerator = serde_json::from_str(&gen_json).unwrap();
    failpoint::arm(k, Mode::Abort);
    let r = TailsFileWriter::new(Some(dir)).write(&mut g);
    failpoint::disarm();
    // the fault index was beyond the last step: report the normal result through the exit code
    std::process::exit(if r.is_ok() { 0 } else { 3 });
}

/// child mode: `avh C19-child-fsize <gen.json file> <dir> <limit>` — write while the process may not grow a file beyond <limit>
pub fn child_fsize(args: &[String]) {
    let gen_json = std::fs::read_to_string(&args[0]).unwrap();
    let dir = args[1].clone();
    let lim: u64 = args[2].parse().unwrap();
    let mut g: RevocationTailsGenerator = serde_json::from_str(&gen_json).unwrap();
    unsafe {
        libc::signal(libc::SIGXFSZ, libc::SIG_IGN);
        let rl = libc::rlimit { rlim_cur: lim as libc::rlim_t, rlim_max: lim as libc::rlim_t };
        libc::setrlimit(libc::RLIMIT_FSIZE, &rl);
    }
    let r = TailsFileWriter::new(Some(dir)).write(&mut g);
    std::process::exit(if r.is_ok() { 0 } else { 3 });
}

enum Fault {
    None,
    Error(u64),
    Abort(u64),
    /// no fault, but the directory already holds a file under the final name: 0 = same length, zeros;
    /// 1 = same length, last byte changed; 2 = one byte short; 3 = one byte long; 4 = the right content; 5 = empty
    Stale(u8),
    /// no injected fault: the process may write at most this many bytes to a file (RLIMIT_FSIZE), so the operating
    /// system itself refuses a write - wherever that write happens (buffer flush, final flush)
    Fsize(u64),
}

struct Job {
    size: usize,
    fault: Fault,
    class: &'static str,
}

pub fn run(tier: &str, seed: u64, outdir: &str) {
    let mut out = Out::new(outdir);
    let mut r = Rng::new(seed ^ 0xC19);
    let thorough = tier == "thorough";
    let cd = world::make_cred_def(
        "DXoTtQJNtXtiwWaZAK3rB1:2:example:1.0", "example", "1.0", "DXoTtQJNtXtiwWaZAK3rB1", &["name"],
        "DXoTtQJNtXtiwWaZAK3rB1:3:CL:98153:default", "DXoTtQJNtXtiwWaZAK3rB1", true,
    );
    // registry sizes: number of tails = 2n+1; one 8 KiB buffer holds 64 tails
    let sizes: Vec<u32> = if thorough { vec![1, 2, 5, 31, 32, 40] } else { vec![1, 2, 5, 31, 32] };
    let mut gens: Vec<(String, Vec<Vec<u8>>)> = vec![];
    for n in &sizes {
        let mut cap = Capture { json: None };
        anoncreds::issuer::create_revocation_registry_def(
            &cd.cred_def,
            cd.cred_def_id.as_str().try_into().unwrap(),
            "t",
            anoncreds::types::RegistryType::CL_ACCUM,
            *n,
            &mut cap,
        )
        .unwrap();
        let j = cap.json.unwrap();
        let tails = generated_tails(&j);
        std::fs::write(format!("{}/gen{}.json", outdir, gens.len()), &j).unwrap();
        gens.push((j, tails));
    }
    // a registry whose tails file has a SHA-256 digest that starts with a zero byte (its base58 name starts with '1'):
    // searched over variants of the smallest generator (the last digits of its secret exponent rewritten)
    {
        use sha2::{Digest, Sha256};
        let base: serde_json::Value = serde_json::from_str(&gens[0].0).unwrap();
        if let Some(gamma) = base["gamma"].as_str() {
            let tries: Vec<u32> = (0..(if thorough { 3000 } else { 1500 })).collect();
            let found = crate::par::par_map(&tries, crate::par::ncpu(), |_, i| -> Option<(String, Vec<Vec<u8>>)> {
                if gamma.len() < 8 || !gamma.is_char_boundary(gamma.len() - 4) {
                    return None;
                }
                let upper = gamma.chars().any(|c| c.is_ascii_uppercase());
                let tail = if upper { format!("{:04X}", i) } else { format!("{:04x}", i) };
                let mut v = base.clone();
                v["gamma"] = json!(format!("{}{}", &gamma[..gamma.len() - 4], tail));
                let j = serde_json::to_string(&v).ok()?;
                let tails = std::panic::catch_unwind(|| {
                    let mut g: RevocationTailsGenerator = serde_json::from_str(&j).ok()?;
                    let mut t = vec![];
                    while let Ok(Some(x)) = g.try_next() {
                        t.push(x.to_bytes().ok()?);
                    }
                    Some(t)
                })
                .ok()??;
                let mut h = Sha256::new();
                h.update([0u8, 2u8]);
                for t in &tails {
                    h.update(t);
                }
                if h.finalize()[0] == 0 { Some((j, tails)) } else { None }
            });
            for (j, tails) in found.into_iter().flatten().take(2) {
                std::fs::write(format!("{}/gen{}.json", outdir, gens.len()), &j).unwrap();
                gens.push((j, tails));
                out.bump("generator:digest-with-leading-zero-byte");
            }
        }
    }
    let exe = std::env::current_exe().unwrap();

    let mut jobs: Vec<Job> = vec![];
    for (si, (_, tails)) in gens.iter().enumerate() {
        let steps = tails.len() as u64 + 4; // create, version, tails.., flush, rename
        jobs.push(Job { size: si, fault: Fault::None, class: "write:no-fault" });
        for k in 0..6u8 {
            jobs.push(Job { size: si, fault: Fault::Stale(k), class: "write:over-existing-file" });
        }
        let total = 2 + tails.iter().map(|t| t.len() as u64).sum::<u64>();
        for lim in [total - 1, total / 2, 1000.min(total - 1), 8192.min(total - 1), total.saturating_sub(8192).max(1), 1] {
            jobs.push(Job { size: si, fault: Fault::Fsize(lim), class: "write:os-refuses-write" });
        }
        for k in 0..(steps + 2) {
            jobs.push(Job { size: si, fault: Fault::Error(k), class: "write:error" });
        }
        let abort_steps: Vec<u64> = if thorough || tails.len() <= 11 {
            (0..(steps + 1)).collect()
        } else {
            let mut v = vec![0, 1, 2, 3, 62, 63, 64, 65, 66, 67, steps - 4, steps - 3, steps - 2, steps - 1, steps];
            for _ in 0..6 {
                v.push(r.below(steps));
            }
            v.sort();
            v.dedup();
            v.into_iter().filter(|k| *k <= steps).collect()
        };
        for k in abort_steps {
            jobs.push(Job { size: si, fault: Fault::Abort(k), class: "write:abort" });
        }
    }
    let outdir_s = outdir.to_string();
    let lines = crate::par::par_map(&jobs, crate::par::ncpu(), |i, j| {
        let (gen_json, tails) = &gens[j.size];
        let dir = format!("{}/w{}", outdir_s, i);
        std::fs::create_dir_all(&dir).unwrap();
        let (fault_s, ret_s) = match j.fault {
            Fault::None | Fault::Error(_) | Fault::Stale(_) => {
                if let Fault::Stale(k) = j.fault {
                    // the name and length the publication will have: from a first run in a scratch directory
                    let scratch = format!("{}/s{}", outdir_s, i);
                    std::fs::create_dir_all(&scratch).unwrap();
                    let mut g0: RevocationTailsGenerator = serde_json::from_str(gen_json).unwrap();
                    if let Ok((path, _)) = TailsFileWriter::new(Some(scratch.clone())).write(&mut g0) {
                        let good = std::fs::read(&path).unwrap_or_default();
                        let name = std::path::Path::new(&path).file_name().map(|x| x.to_string_lossy().into_owned()).unwrap_or_default();
                        let mut stale = match k {
                            0 => vec![0u8; good.len()],
                            1 => { let mut v = good.clone(); if let Some(b) = v.last_mut() { *b ^= 1; } v }
                            2 => good[..good.len().saturating_sub(1)].to_vec(),
                            3 => { let mut v = good.clone(); v.push(0); v }
                            4 => good.clone(),
                            _ => vec![],
                        };
                        if k == 0 && stale == good { stale[0] = 1; }
                        std::fs::write(format!("{}/{}", dir, name), stale).unwrap();
                    }
                    let _ = std::fs::remove_dir_all(&scratch);
                }
                let mut g: RevocationTailsGenerator = serde_json::from_str(gen_json).unwrap();
                if let Fault::Error(k) = j.fault {
                    failpoint::arm(k, Mode::Error);
                }
                let res = std::panic::catch_unwind(std::panic::AssertUnwindSafe(|| TailsFileWriter::new(Some(dir.clone())).write(&mut g)));
                failpoint::disarm();
                let ret = match res {
                    Ok(Ok((path, hash))) => {
                        let base = std::path::Path::new(&path).file_name().map(|x| x.to_string_lossy().into_owned()).unwrap_or_default();
                        let in_dir = std::path::Path::new(&path).parent().map(|p| p == std::path::Path::new(&dir)).unwrap_or(false);
                        format!("(ok {} {})", sx::s(&hash), sx::s(if in_dir { &base } else { "NOT-IN-ROOT" }))
                    }
                    Ok(Err(_)) => "(err)".to_string(),
                    Err(_) => "(panic)".to_string(),
                };
                (match j.fault { Fault::Error(k) => format!("(e {})", k), _ => "(n)".to_string() }, ret)
            }
            Fault::Fsize(lim) => {
                let st = std::process::Command::new(&exe)
                    .args(["C19-child-fsize", &format!("{}/gen{}.json", outdir_s, j.size), &dir, &lim.to_string()])
                    .stdout(std::process::Stdio::null())
                    .stderr(std::process::Stdio::null())
                    .status()
                    .unwrap();
                let ret = match st.code() {
                    Some(0) => {
                        let names: Vec<String> = std::fs::read_dir(&dir).unwrap().map(|e| e.unwrap().file_name().to_string_lossy().into_owned()).filter(|n| !is_tmp_name(n)).collect();
                        let n = names.get(0).cloned().unwrap_or_default();
                        format!("(ok {} {})", sx::s(&n), sx::s(&n))
                    }
                    Some(3) => "(err)".to_string(),
                    _ => "(died)".to_string(),
                };
                // the refused write surfaces as an error of the writer; in the model: an error at the final flush
                (format!("(e {})", tails.len() as u64 + 2), ret)
            }
            Fault::Abort(k) => {
                let st = std::process::Command::new(&exe)
                    .args(["C19-child", &format!("{}/gen{}.json", outdir_s, j.size), &dir, &k.to_string()])
                    .stdout(std::process::Stdio::null())
                    .stderr(std::process::Stdio::null())
                    .status()
                    .unwrap();
                let ret = match st.code() {
                    Some(0) => {
                        // no abort happened (index beyond the end): the child published normally
                        let names: Vec<String> = std::fs::read_dir(&dir).unwrap().map(|e| e.unwrap().file_name().to_string_lossy().into_owned()).filter(|n| !is_tmp_name(n)).collect();
                        let n = names.get(0).cloned().unwrap_or_default();
                        format!("(ok {} {})", sx::s(&n), sx::s(&n))
                    }
                    Some(3) => "(err)".to_string(),
                    _ => "(died)".to_string(),
                };
                (format!("(a {})", k), ret)
            }
        };
        let l = listing(&dir);
        let _ = std::fs::remove_dir_all(&dir);
        format!("W {} {} {} {})", sx::list(tails.iter(), |t| sx::b(t)), fault_s, ret_s, l)
    });
    for (j, body) in jobs.iter().zip(lines) {
        let id = out.next_id();
        let (nt, f) = (gens[j.size].1.len(), match j.fault { Fault::None => "none".to_string(), Fault::Error(k) => format!("error at step {}", k), Fault::Abort(k) => format!("abort at step {}", k), Fault::Stale(k) => format!("none, over an existing file (variant {})", k), Fault::Fsize(l) => format!("the operating system refuses writes beyond {} bytes", l) });
        out.case(&format!("(C19 {} {}", id, body), j.class, || json!({"kind": "write", "tails": nt, "fault": f}));
    }

    // --- read-back: one published file per size, access sequences on ONE reader (in range, past the end, repeated)
    for (si, (gen_json, tails)) in gens.iter().enumerate() {
        let dir = format!("{}/r{}", outdir, si);
        std::fs::create_dir_all(&dir).unwrap();
        let mut g: RevocationTailsGenerator = serde_json::from_str(gen_json).unwrap();
        let (path, _h) = TailsFileWriter::new(Some(dir.clone())).write(&mut g).unwrap();
        let nt = tails.len() as u64;
        let nseq = if thorough { 60 } else { 12 };
        for q in 0..nseq {
            let reader = TailsFileReader::new(&path).unwrap();
            let len = if q == 0 { nt + 3 } else { 4 + r.below(12) };
            let mut reads = vec![];
            for a in 0..len {
                let k: u64 = if q == 0 { a } else if r.chance(1, 4) { nt + r.below(3) } else if r.chance(1, 25) { u32::MAX as u64 - r.below(2) } else { r.below(nt) };
                let mut got: Option<Vec<u8>> = None;
                // every third sequence: a second tail is read from INSIDE the accessor of the first (pairs of tails)
                let nested: Option<u64> = if q % 3 == 2 { Some(if r.chance(1, 5) { nt + r.below(2) } else { r.below(nt) }) } else { None };
                let mut inner: Option<String> = None;
                let res = reader.access_tail(k as u32, &mut |t| {
                    got = Some(t.to_bytes().unwrap());
                    if let Some(k2) = nested {
                        let mut got2: Option<Vec<u8>> = None;
                        let res2 = reader.access_tail(k2 as u32, &mut |t2| got2 = Some(t2.to_bytes().unwrap()));
                        inner = Some(format!("({} {})", k2, match (&res2, &got2) { (Ok(()), Some(b)) => format!("({})", sx::b(b)), _ => "()".to_string() }));
                    }
                });
                reads.push(format!("({} {})", k, match (&res, &got) { (Ok(()), Some(b)) => format!("({})", sx::b(b)), _ => "()".to_string() }));
                if let Some(i) = inner {
                    reads.push(i);
                }
            }
            let id = out.next_id();
            let line = format!("(C19 {} R {} {})", id, sx::list(tails.iter(), |t| sx::b(t)), sx::l(&reads));
            let (ntl, nr) = (tails.len(), reads.len());
            out.case(&line, if q % 3 == 2 { "read-back:nested" } else { "read-back" }, || json!({"kind": "read", "tails": ntl, "accesses": nr}));
        }
        let _ = std::fs::remove_dir_all(&dir);
    }
    // --- one path, two files in succession (a holder that fetches each registry's tails file to the same local name):
    // a reader opened after the file was replaced reads the file that is there now
    {
        let dir = format!("{}/fixed", outdir);
        std::fs::create_dir_all(&dir).unwrap();
        let fixed = format!("{}/tails.bin", dir);
        let mut published: Vec<String> = vec![];
        for (si, (gen_json, _)) in gens.iter().enumerate() {
            let d = format!("{}/p{}", dir, si);
            std::fs::create_dir_all(&d).unwrap();
            let mut g: RevocationTailsGenerator = serde_json::from_str(gen_json).unwrap();
            published.push(TailsFileWriter::new(Some(d)).write(&mut g).unwrap().0);
        }
        for round in 0..2usize {
            for si in 0..gens.len() {
                let how = if (si + round) % 2 == 0 { "rename" } else { "remove-and-copy" };
                if how == "rename" {
                    let tmp = format!("{}/incoming", dir);
                    std::fs::copy(&published[si], &tmp).unwrap();
                    std::fs::rename(&tmp, &fixed).unwrap();
                } else {
                    let _ = std::fs::remove_file(&fixed);
                    std::fs::copy(&published[si], &fixed).unwrap();
                }
                let tails = &gens[si].1;
                let nt = tails.len() as u64;
                let reader = TailsFileReader::new(&fixed).unwrap();
                let mut reads = vec![];
                for k in [0u64, 1, nt / 2, nt - 1, nt] {
                    let mut got: Option<Vec<u8>> = None;
                    let res = reader.access_tail(k as u32, &mut |t| got = Some(t.to_bytes().unwrap()));
                    reads.push(format!("({} {})", k, match (&res, &got) { (Ok(()), Some(b)) => format!("({})", sx::b(b)), _ => "()".to_string() }));
                }
                let id = out.next_id();
                let line = format!("(C19 {} R {} {})", id, sx::list(tails.iter(), |t| sx::b(t)), sx::l(&reads));
                let ntl = tails.len();
                out.case(&line, "read-back:path-reused", || json!({"kind": "read", "tails": ntl, "how_replaced": how}));
            }
        }
        let _ = std::fs::remove_dir_all(&dir);
    }
    for i in 0..gens.len() {
        let _ = std::fs::remove_file(format!("{}/gen{}.json", outdir, i));
    }
    out.finish();
}
