"""Per-property configuration of bin/check (texts that go into the evidence)."""

AXIOM_ALLOWLIST = set()   # target: every property theorem is `Closed under the global context`

HARNESS_TIMEOUT = {"quick": 1500, "thorough": 6 * 3600}

TRUSTED_BASE = [
    "Coq 8.16.1 kernel and coqc (full .vo build, no -vos/-vok); vm_compute for closed computations; no native_compute",
    "no Axiom/Parameter/Admitted in the development (grep audit over the proof cone on every run)",
    "extraction: ExtrOcamlBasic only (bool, option, unit, list, prod, sumbool, sumor -> OCaml types); no Extract Constant; OCaml 4.13.1 ocamlopt",
    "ocaml/driver.ml (s-expression reader/printer), harness/ (Rust: case generation, running /repo's code, field-copy abstraction), bin/check (classification)",
    "translator/gen.py (source -> Generated/*.v constants and tables; fails closed)",
    "the hand-written Gallina model is tied to /repo only through the correspondence run of this check (modelled, not verified)",
]

PROPS = {
    "C13": {
        "theorems": ["C13_parse_is_literal", "C13_encode_spec", "C13_canonical", "C13_numeric_injective",
                     "C13_idempotent_on_numeric", "C13_normalize_encode", "C13_transfer"],
        "rule": "corpus of edge strings, exhaustive windows around 0, +-2^31, +-2^32 in plain/signed/zero-padded/whitespace forms, "
                "random digit strings (len 1-24), random unicode/control strings, long strings at SHA-256 block boundaries; "
                "each case = one input string run through 5-6 encoding sites of the library + normalize_encoded_attr; "
                "distinct = distinct input strings; every case is non-trivial (it exercises parse and, if not a literal, SHA-256)",
        "assumptions": ["SHA-256 of the sha2 crate and BigNumber::to_dec of the CL crate are executed, not verified; "
                        "Model/Sha256.v is an independent re-implementation compared on every hashed case",
                        "target_endian = little (the big-endian cfg branch of encode_credential_attribute is not compiled here)"],
        "trusted_base": [],
    },
}
