"""Per-property configuration of bin/check (texts that go into the evidence)."""

AXIOM_ALLOWLIST = set()   # target: every property theorem is `Closed under the global context`

HARNESS_TIMEOUT = {"quick": 1500, "thorough": 6 * 3600}

TRUSTED_BASE = [
    "Coq 8.16.1 kernel and coqc (full .vo build, no -vos/-vok); vm_compute for closed computations; no native_compute",
    "no Axiom/Parameter/Admitted in the development (grep audit over the proof cone on every run)",
    "extraction: ExtrOcamlBasic only (bool, option, unit, list, prod, sumbool, sumor -> OCaml types); no Extract Constant; OCaml 4.13.1 ocamlopt",
    "ocaml/driver.ml (s-expression reader/printer), harness/ (Rust: case generation, running /repo's code, field-copy abstraction), bin/check (classification)",
    "translator/gen.py (source -> Generated/*.v constants and tables; fails closed)",
    "the hand-written Gallina model is tied to /repo only through the correspondence run of this check (modelled, not verified)",
]

PROPS = {
    "C13": {
        "level_text": "Theorems in Coq about an executable model of Rust's i32 parsing, decimal printing and SHA-256-based encoding (parse = literal grammar, canonical printing, encode = specification, normalisation identity), for all strings; the model is tied to the code by running all seven encoding sites of the library and the extracted model on the same strings on every run, plus a generated call-site table theorem.",
        "level_note": "Trusted: Coq kernel, extraction (ExtrOcamlBasic), harness/driver glue, translator. Modelled not verified: the Rust text; SHA-256/BigNumber of the crates are executed and compared with an independent Gallina SHA-256.",
        "design_ref": "DESIGN.md §7 C13",
        "theorems": ["C13_parse_is_literal", "C13_encode_spec", "C13_canonical", "C13_numeric_injective",
                     "C13_idempotent_on_numeric", "C13_normalize_encode", "C13_transfer"],
        "rule": "corpus of edge strings, exhaustive windows around 0, +-2^31, +-2^32 in plain/signed/zero-padded/whitespace forms, "
                "random digit strings (len 1-24), random unicode/control strings, long strings at SHA-256 block boundaries; "
                "each case = one input string run through 5-6 encoding sites of the library + normalize_encoded_attr; "
                "distinct = distinct input strings; every case is non-trivial (it exercises parse and, if not a literal, SHA-256)",
        "assumptions": ["SHA-256 of the sha2 crate and BigNumber::to_dec of the CL crate are executed, not verified; "
                        "Model/Sha256.v is an independent re-implementation compared on every hashed case",
                        "target_endian = little (the big-endian cfg branch of encode_credential_attribute is not compiled here)"],
        "trusted_base": [],
    },
    "C16": {
        "level_text": "Theorems in Coq about an executable model of the WQL restriction parser (Deserialize for Query incl. the legacy list form), its printer (to_value) and version-dependent request validation: parse-print-parse for every JSON value, image invariant of the parser, legacy list = disjunction of non-empty filters, empty forms = no restriction, malformed forms characterised and rejected, v1 validation refuses exactly qualifiable-tag/URI pairs. Tied to the code by running the real serde parser/printer/validator and the extracted model on the same JSON values (exhaustive to a depth over an operator/tag/operand vocabulary + random deeper ones) on every run; QUALIFIABLE_TAGS and the URI regex are regenerated from the source and pinned by reflexivity lemmas.",
        "level_note": "Trusted: Coq kernel, extraction (ExtrOcamlBasic), harness/driver glue, translator. Modelled not verified: utils/query.rs and pres_request.rs validation; serde_json itself (object key order, number parsing) is executed, not modelled; the Rust regex engine is modelled by a structured recogniser (Ident.v) compared on every run.",
        "design_ref": "DESIGN.md §7 C16",
        "theorems": ["C16_parse_print_parse", "C16_parse_image", "C16_print_parse", "C16_legacy_array_is_disjunction",
                     "C16_empty_forms_unrestricted", "C16_malformed_rejected", "C16_v1_rejects_qualified", "C16_v2_accepts",
                     "C16_tags_pin", "C16_transfer_parse", "C16_transfer_validate"],
        "rule": "every JSON value to a nesting depth over the vocabulary {11 operator keys, 9 tags incl. junk and empty} x {12 operand leaves of every JSON type} (objects with 1-2 keys, arrays of 0-2), legacy list forms with null/empty filters, random deeper values; each parsed value is additionally embedded in a presentation request (attribute and predicate position, ver 1.0 / 2.0 / absent) and validated; "
                "non-trivial = the value is an object or array (reaches parse_query) ; distinct = distinct abstract case",
        "assumptions": ["serde_json::Value object iteration order (BTreeMap: sorted keys) is what the model's association lists carry; the harness emits them in that order"],
        "trusted_base": [],
    },
    "C20": {
        "level_text": "Theorems in Coq about executable recognisers for the five identifier regular expressions of utils/validation.rs: each recogniser is equivalent to a declarative grammar (URI = letter, scheme chars, ':', non-empty newline-free rest; legacy forms as ':'-joins of base58 DIDs, literal markers, colon-free names, versions, sequence numbers), validation = URI or the legacy form of that type, schema validity = issuer id valid and 1..125 distinct names, credential-request validity = exactly one of entropy / prover DID (DID only with a legacy cred-def id, and of DID form). The regex texts and MAX_ATTRIBUTES_COUNT are regenerated from the source on every run and pinned by reflexivity lemmas; the recognisers are tied to the regex engine by running *Id::new / validate / try_from / is_* of all four identifier types, create_schema, Schema::validate, CredentialRequest validation and the issuer API on generated strings (from each grammar, single edits around it, every ASCII byte in every URI position, every forbidden base58 letter at every DID position).",
        "level_note": "Trusted: Coq kernel, extraction, harness/driver glue, translator. Modelled not verified: the regex crate's matching is represented by structured recognisers (Rust-regex facts used: ^/$ only at text ends, '.' excludes \\n, [^:] includes it); 'issuer outputs validate' is proved for identifiers that entered through checking constructors and are copied (the harness checks the copy on real objects); new_unchecked / serde are opt-outs and are not claimed.",
        "theorems": ["C20_regex_pins", "C20_max_attributes_pin", "C20_split_colon_spec", "C20_uri_iff", "C20_legacy_did_iff", "C20_legacy_schema_id_iff",
                     "C20_legacy_cred_def_id_iff", "C20_legacy_rev_reg_id_iff", "C20_validate_iff", "C20_schema_valid_iff", "C20_cred_request_valid_iff",
                     "C20_issuer_outputs_validate", "C20_transfer_id", "C20_transfer_schema", "C20_transfer_req", "C20_transfer_out"],
        "rule": "identifier strings: URI pool (every ASCII byte as first / scheme / rest character, newline and non-ASCII placements), the suite's examples, every forbidden base58 letter at every position, strings drawn from each of the four legacy grammars fed to all four validators, and 1-2 random edits of them (replace/delete/insert nasty characters, drop/duplicate fields, wrong markers); schemas of size 0,1,2,124..127,200 with duplicates at several positions and near-duplicates; credential requests over entropy x prover-DID x cred-def-id pools (validate on documents, new through create_credential_request); ids of every object returned by the issuer API. "
                "non-trivial = all (every case runs at least one regex); distinct = distinct abstract case",
        "assumptions": ["identifiers are valid UTF-8 (Rust &str); the byte-level reading of the regexes is exact because every literal and class is ASCII"],
        "trusted_base": [],
    },
    "C09": {
        "level_text": "Theorems in Coq about an executable model of the status-list state machine (create / update with the issued-revoked filters against the old list / timestamp-only update) over the accumulator algebra of the CL crate (free abelian group on tail exponents, index i <-> exponent N+1-i): for EVERY history, every entry equals the pointwise application of the requested sets in order (no-op and out-of-range requests ignored), the accumulator equals a fixed function of the entries plus a constant of registry size and issuance mode (hence path independence), timestamps change only when supplied, and a credential issued at index i embeds the accumulator of the matching issue update (issuance refused exactly outside 1..N-1). Tied to the code by running real registries (N=3 exhaustive single updates and update pairs over all subsets incl. index 0 and out-of-range, random long histories on N=5,8,40, both issuance modes, JSON hops, real credential issuance) and checking bits, timestamps, input immutability and the partition of all observed accumulators into equality classes (crate ==) against the model's group elements.",
        "level_note": "Trusted: Coq kernel, extraction, harness/driver glue. Modelled not verified: issuer.rs / rev_status_list.rs update logic and the CL crate's accumulator arithmetic (represented in the free abelian group on exponents; equality there implies equality in the pairing group, the converse is checked on every observed pair by the crate's ==). `update_pure` (input list unchanged) is trivial in a functional model and is checked on the implementation only.",
        "theorems": ["C09_bits_spec", "C09_acc_invariant", "C09_acc_path_independent", "C09_ts_spec", "C09_touch_only_ts", "C09_issue_embeds_acc",
                     "C09_issue_refused_iff", "C09_transfer", "C09_transfer_update", "C09_transfer_issue", "C09_transfer_classes"],
        "rule": "one case = one history (registry size, mode, initial timestamp, list of operations: update with optional issued/revoked sets and timestamp, timestamp-only update, JSON hop, credential issuance at an index) with the implementation's observable after every step; non-trivial = the history contains a non-empty update or an issuance; distinct = distinct abstract case",
        "assumptions": ["group elements are compared only with the CL crate's PartialEq (their serial forms are not canonical)"],
        "trusted_base": [],
    },
    "C19": {
        "level_text": "Theorems in Coq about an executable model of the tails file: layout (2-byte tag + fixed-size tails) with read_back for every index (u32 index arithmetic in N; past-the-end reads fail), and TailsFileWriter::write as a step machine over (temp file, final file, BufWriter buffer, hasher input, drop guard) with an error or a process abort injected at ANY step, for every buffer capacity and every list of tails: the final name is absent or holds the full content named by base58(SHA-256(content)); an error leaves no temp file (with the exact characterisation of when one could: guard defused before rename, fault at the rename — which refuted the code before the fix commit); a surviving temp file after an abort is a prefix. Tied to the code on every run: fail-point hooks (cfg-guarded) inject an I/O error at every step in-process and an abort at every step in a child process for registries below and above one 8 KiB buffer; the directory listing, returned (path, hash), and file bytes are compared with the model, whose SHA-256 and base58 are independent Gallina implementations; read-back through TailsFileReader::access_tail in access sequences on one reader including out-of-range indices.",
        "level_note": "Trusted: Coq kernel, extraction, harness/driver glue, translator pins (tag size, version bytes, rename-before-defuse order), the fail-point hook. Modelled not verified: tails.rs; BufWriter spilling is modelled (capacity 8192) but after an abort only 'temp content is a prefix' is compared. OS-level crash consistency (power loss, no fsync, rename(2) atomicity) is outside what a process-level model and harness can exhibit: partial.",
        "theorems": ["C19_read_back", "C19_atomic_publish", "C19_write_tails_spec", "C19_unfixed_refuted", "C19_pins", "C19_transfer_write", "C19_transfer_read"],
        "rule": "write cases: registry sizes 1,2,5,31,32 (quick; +40 thorough) i.e. 3..81 tails, fault = none | error at every step 0..T+5 | abort at every step (small sizes) or at boundary steps + random (large sizes, all in thorough), each run in a fresh directory; read cases: per size one full scan (all indices + 3 past the end) and random access sequences with out-of-range and near-u32::MAX indices on one reader; non-trivial = all; distinct = distinct abstract case",
        "assumptions": ["RevocationTailsGenerator::try_next + Tail::to_bytes define 'the k-th generated tail' (the harness regenerates them independently of the writer)"],
        "trusted_base": [],
    },
}

NOTES = "MANIFEST.json is generated by bin/mkmanifest from bin/props.py; see DESIGN.md"
NOT_CLAIMED = {}
